------------------------------- MODULE TextCodec -------------------------------
(* C04 - delimited-text record files round-trip values and structure.              *)
(*                                                                                *)
(* Two levels.                                                                    *)
(*                                                                                *)
(* PROPERTY LEVEL (TCFailing): a table is                                         *)
(*    [fields : Seq([name, k, w, sh]), rows : Seq(Seq(cell))]                     *)
(*  k in {"i","u","f","S"} (signed / unsigned integer, float, byte string),        *)
(*  w the item size in bytes, sh the sub-array shape (<<>> = scalar).  A cell is  *)
(*  the sequence of the field's elements in C order.  Elements are abstract:      *)
(*    number : a STRING token.  In the bounded model the symbolic tokens          *)
(*             min m1 z p1 max / nan pinf ninf pz nz fa fb and the text-shape     *)
(*             classes fs fl fz fi fd fx (see TCFltShapes); in recorded           *)
(*             observations the decimal text of an integer, and for floats        *)
(*             nan pinf ninf pz nz or the exact hexadecimal text of the value     *)
(*             (so that token equality is value equality with NaN |-> NaN and     *)
(*             the sign of zero and of infinity preserved);                       *)
(*    string : the sequence of its characters without the trailing NUL pad, each  *)
(*             character a token: "sp" space, "dl" the delimiter character of the *)
(*             run, "tb" a tab that is not the delimiter, "nul", or the           *)
(*             character itself ("x" is the letter of the bounded model).         *)
(*  The round trip must return the same names, types and shapes, every field in   *)
(*  native order, equal cells, and (sfile) a header that records the delimiter    *)
(*  and a dtype without byte-order characters.  Each clause is named.             *)
(*                                                                                *)
(* MECHANISM LEVEL (TCWriteRows / TCScanNum / TCReadStr / TCReadRows): the        *)
(*  character-level writer and scanner of esutil/recfile/records.cpp              *)
(*  (WriteRows, WriteField, scan_column_values, read_ascii_bytes,                 *)
(*  read_from_text_column, make_scan_formats) transcribed as operators over a     *)
(*  file = Seq(character token).  Obligation: TCReadRows(TCWriteRows(t)) = t.     *)
(*  The pinned code does not meet it; the deviations are *named* (TCHazard) and   *)
(*  the reader has a repaired variant (reader = "fixed") that does.               *)
EXTENDS VU

\* ---------------------------------------------------------------------------------
\* catalogue of field types and sub-array shapes (cfg files can only carry strings)
TCTypes == [i1 |-> [k |-> "i", w |-> 1], u1 |-> [k |-> "u", w |-> 1],
            i2 |-> [k |-> "i", w |-> 2], u2 |-> [k |-> "u", w |-> 2],
            i4 |-> [k |-> "i", w |-> 4], u4 |-> [k |-> "u", w |-> 4],
            i8 |-> [k |-> "i", w |-> 8], u8 |-> [k |-> "u", w |-> 8],
            f4 |-> [k |-> "f", w |-> 4], f8 |-> [k |-> "f", w |-> 8],
            S1 |-> [k |-> "S", w |-> 1], S2 |-> [k |-> "S", w |-> 2], S3 |-> [k |-> "S", w |-> 3],
            S4 |-> [k |-> "S", w |-> 4], S5 |-> [k |-> "S", w |-> 5], S6 |-> [k |-> "S", w |-> 6],
            S7 |-> [k |-> "S", w |-> 7], S8 |-> [k |-> "S", w |-> 8], S9 |-> [k |-> "S", w |-> 9],
            S10 |-> [k |-> "S", w |-> 10], S11 |-> [k |-> "S", w |-> 11], S12 |-> [k |-> "S", w |-> 12]]
TCShapes == [s |-> <<>>, v2 |-> <<2>>, v3 |-> <<3>>, m22 |-> <<2, 2>>, m23 |-> <<2, 3>>]

RECURSIVE TCProd(_)
TCProd(s)  == IF s = <<>> THEN 1 ELSE Head(s) * TCProd(Tail(s))
TCNel(f)   == TCProd(f.sh)
TCIsStr(f) == f.k = "S"

RECURSIVE TCFlat(_)                               \* concatenation of a sequence of sequences
TCFlat(ss) == IF ss = <<>> THEN <<>> ELSE Head(ss) \o TCFlat(Tail(ss))

RECURSIVE TCJoin(_, _)                            \* ... with a separator between the parts
TCJoin(ss, sep) == IF ss = <<>> THEN <<>>
                   ELSE IF Len(ss) = 1 THEN ss[1] ELSE ss[1] \o sep \o TCJoin(Tail(ss), sep)

\* =================================================================================
\* PROPERTY LEVEL
\* An observation of one write/read cycle:
\*   [entry : "sfile"|"recfile", order : STRING, err : "none" | <exception class>,
\*    fields : Seq([name, k, w, sh, bo]),  bo in {"native","swapped","none"}
\*    rows   : same shape as the table's rows,
\*    hdr    : [has : BOOLEAN, delim : "dl"|"missing"|"other",
\*              dtype : Seq([name, k, w, sh, bofree : BOOLEAN])]]
\* =================================================================================
TCSameLen(t, o)  == Len(o.fields) = Len(t.fields)
TCNamesOK(t, o)  == TCSameLen(t, o) /\ \A i \in 1..Len(t.fields) : o.fields[i].name = t.fields[i].name
TCTypesOK(t, o)  == TCSameLen(t, o) /\ \A i \in 1..Len(t.fields) : o.fields[i].k = t.fields[i].k /\ o.fields[i].w = t.fields[i].w
TCShapesOK(t, o) == TCSameLen(t, o) /\ \A i \in 1..Len(t.fields) : o.fields[i].sh = t.fields[i].sh
TCNativeOK(o)    == \A i \in 1..Len(o.fields) : o.fields[i].bo \in {"native", "none"}

\* cells of the fields of kind set K are equal (only evaluated when the structure matches)
TCCellsOK(t, o, K) ==
    \A r \in 1..Len(t.rows) : \A i \in 1..Len(t.fields) :
        t.fields[i].k \in K =>
            /\ Len(o.rows[r][i]) = Len(t.rows[r][i])
            /\ \A e \in 1..Len(t.rows[r][i]) : o.rows[r][i][e] = t.rows[r][i][e]

TCRowShapeOK(t, o) == \A r \in 1..Len(o.rows) : Len(o.rows[r]) = Len(t.fields)

TCHdrDtypeOK(t, o) ==
    /\ Len(o.hdr.dtype) = Len(t.fields)
    /\ \A i \in 1..Len(t.fields) : LET f == t.fields[i]  g == o.hdr.dtype[i]
                                   IN f.name = g.name /\ f.k = g.k /\ f.w = g.w /\ f.sh = g.sh

\* names of the clauses of the statement that the observation violates
TCFailing(t, o) ==
    IF o.err # "none" THEN {"rows_error"}                  \* "reading it back returns the same rows"
    ELSE (IF TCNamesOK(t, o) THEN {} ELSE {"names"}) \cup
         (IF Len(o.fields) = Len(t.fields) /\ ~TCTypesOK(t, o) THEN {"types"} ELSE {}) \cup
         (IF Len(o.fields) = Len(t.fields) /\ ~TCShapesOK(t, o) THEN {"shapes"} ELSE {}) \cup
         (IF TCNativeOK(o) THEN {} ELSE {"native_order"}) \cup
         (IF Len(o.rows) # Len(t.rows) THEN {"rows_count"}
          ELSE IF ~(TCNamesOK(t, o) /\ TCTypesOK(t, o) /\ TCShapesOK(t, o) /\ TCRowShapeOK(t, o)) THEN {}
          ELSE (IF TCCellsOK(t, o, {"i", "u"}) THEN {} ELSE {"rows_int"}) \cup
               (IF TCCellsOK(t, o, {"S"}) THEN {} ELSE {"rows_str"}) \cup
               (IF TCCellsOK(t, o, {"f"}) THEN {} ELSE {"rows_float"})) \cup
         (IF ~o.hdr.has THEN {}
          ELSE (IF o.hdr.delim = "dl" THEN {} ELSE {"hdr_delim"}) \cup
               (IF \A i \in 1..Len(o.hdr.dtype) : o.hdr.dtype[i].bofree THEN {} ELSE {"hdr_dtype_byteorder"}) \cup
               (IF TCHdrDtypeOK(t, o) THEN {} ELSE {"hdr_dtype"}))

TCAccept(t, o) == TCFailing(t, o) = {}

\* what a conforming implementation returns (used for export and for self-tests)
TCRefObs(t, entry) ==
    [entry |-> entry, order |-> "lt", err |-> "none",
     fields |-> [i \in 1..Len(t.fields) |-> [name |-> t.fields[i].name, k |-> t.fields[i].k, w |-> t.fields[i].w,
                                              sh |-> t.fields[i].sh, bo |-> IF t.fields[i].w = 1 \/ t.fields[i].k = "S" THEN "none" ELSE "native"]],
     rows |-> t.rows,
     hdr |-> [has |-> entry = "sfile", delim |-> "dl",
              dtype |-> IF entry = "sfile"
                        THEN [i \in 1..Len(t.fields) |-> [name |-> t.fields[i].name, k |-> t.fields[i].k, w |-> t.fields[i].w,
                                                           sh |-> t.fields[i].sh, bofree |-> TRUE]]
                        ELSE <<>>]]

\* =================================================================================
\* SCALE: the laws that decide a big table from small ones
\* A table with 10^5 rows, 700 columns or a 3000-element sub-array cannot be enumerated, and a
\* header longer than a stdio block is only reached by such a table.  The clauses above are
\* conjunctions over rows, over columns and over elements, hence:
\*   row law     : for an observation with the table's row count, the whole is accepted iff
\*                 every block of consecutive rows is, and every clause the whole fails is
\*                 failed by some block (TCRowSplitLaw);
\*   column law  : the same for groups of consecutive columns, for an observation with the
\*                 table's number of fields (and of header dtype entries) (TCColSplitLaw);
\*   element law : the writer makes no difference between a field of n elements and n scalar
\*                 fields (TCUnroll, checked on the mechanism), so a wide sub-array is a wide
\*                 table;
\*   write law   : the text of a table is the concatenation of the texts of its row blocks.
\* TLC checks the laws on every table of the bounded families against the rows the scanner
\* models return (wrong ones included).  A *scale record* of the trace module is judged
\* through them: a count clause for the split axis plus the clauses of the distinct
\* (written part, observed part) pairs, each a small table (TCScaleFailing).
\* =================================================================================
TCRowsOf(t, a, b)  == [fields |-> t.fields, rows |-> SubSeq(t.rows, a, b)]
TCObsRows(o, a, b) == [o EXCEPT !.rows = SubSeq(o.rows, a, b)]
TCColsOf(t, a, b)  == [fields |-> SubSeq(t.fields, a, b), rows |-> [r \in 1..Len(t.rows) |-> SubSeq(t.rows[r], a, b)]]
TCObsCols(o, a, b) == [o EXCEPT !.fields = SubSeq(o.fields, a, b),
                                !.rows = [r \in 1..Len(o.rows) |-> SubSeq(o.rows[r], a, b)],
                                !.hdr = [o.hdr EXCEPT !.dtype = IF o.hdr.has THEN SubSeq(o.hdr.dtype, a, b) ELSE <<>>]]
TCSplitAgrees(whole, parts) == whole \subseteq parts /\ (parts = {} <=> whole = {})
TCRowSplitLaw(t, o) ==
    (o.err = "none" /\ Len(o.rows) = Len(t.rows)) =>
        \A k \in 1..(Len(t.rows) - 1) :
            TCSplitAgrees(TCFailing(t, o), TCFailing(TCRowsOf(t, 1, k), TCObsRows(o, 1, k))
                                           \cup TCFailing(TCRowsOf(t, k + 1, Len(t.rows)), TCObsRows(o, k + 1, Len(t.rows))))
TCColSplitLaw(t, o) ==
    (o.err = "none" /\ Len(o.fields) = Len(t.fields) /\ TCRowShapeOK(t, o) /\ (o.hdr.has => Len(o.hdr.dtype) = Len(t.fields))) =>
        \A k \in 1..(Len(t.fields) - 1) :
            TCSplitAgrees(TCFailing(t, o), TCFailing(TCColsOf(t, 1, k), TCObsCols(o, 1, k))
                                           \cup TCFailing(TCColsOf(t, k + 1, Len(t.fields)), TCObsCols(o, k + 1, Len(t.fields))))

\* a scale record: [axis : "rows"|"cols"|"elems", nw, no : written / observed count along the axis
\* (rows; fields; elements of the widened field), hw, ho : written / observed number of header dtype entries
\* (0 when there is no header), err, parts : Seq([t, obs])]
TCScaleFrameFailing(r) ==
    IF r.err # "none" THEN {"rows_error"}
    ELSE (IF r.no = r.nw THEN {} ELSE {IF r.axis = "rows" THEN "rows_count" ELSE IF r.axis = "cols" THEN "names" ELSE "shapes"}) \cup
         (IF r.ho = r.hw THEN {} ELSE {"hdr_dtype"})

\* =================================================================================
\* MECHANISM LEVEL  (records.cpp)
\*   dc     : delimiter class.  "plain" (',' ':' ';' '|'): scan format "%d <delim>";
\*            "tab": the format is "%d \t" - both trailing characters are white-space
\*            directives; "space": mReadAsWhitespace, format "%d" and one fgetc per field.
\*   reader : "pinned" = the code as anchored; "fixed" = every delimiter is read the way
\*            the white-space mode is: number, then exactly one character.
\* =================================================================================
TCWSChars == {"sp", "tb", "nl"}
TCIsWS(c, dc) == c \in TCWSChars \/ (c = "dl" /\ dc \in {"tab", "space"})

\* decimal text of the symbolic number tokens (what printf would produce, in miniature:
\* an optional sign and one or more number characters; distinct tokens, distinct texts;
\* max is "9" and min is "-10", one more in magnitude, as in two's complement)
TCNumText == [min |-> <<"-", "1", "0">>, m1 |-> <<"-", "1">>, z |-> <<"0">>, p1 |-> <<"1">>, max |-> <<"9">>,
              nan |-> <<"n", "a", "n">>, pinf |-> <<"i", "n", "f">>, ninf |-> <<"-", "i", "n", "f">>,
              pz |-> <<"0">>, nz |-> <<"-", "0">>,
              fa |-> <<"1", ".", "5">>, fb |-> <<"-", "2", "e", "9">>,
              fs |-> <<"5">>, fl |-> <<"-", "1", ".", "5", "e", "-", "1", "9">>, fz |-> <<"0", ".", "0", "1", "5">>,
              fi |-> <<"1", "5">>, fd |-> <<"5", "e", "-", "9">>, fx |-> <<"9", "e", "9">>]
TCNumChars == {"-", "0", "1", "2", "5", "9", "n", "a", "i", "f", ".", "e"}   \* the letter of string cells is "x"
TCIntToks  == {"min", "m1", "z", "p1", "max"}
\* Text shapes of a finite float as "%.16g" / "%.7g" print it (the concrete value is drawn by the
\* adapter from the short-decimal lattice restricted to the shape, 16 / 7 digits where the shape asks
\* for the longest text and the value is verified to survive the print/scan cycle unchanged):
\*   fa, fb : a positive / a negative value of ordinary magnitude
\*   fs : the shortest text, one digit                         "7"
\*   fl : the longest one: sign, every digit, exponent sign, every exponent digit
\*        "-d.ddddddddddddddde-ddd" (23 characters) / "-d.dddddde-dd" (13 characters)
\*   fz : the longest fixed notation, "-0.000dddddddddddddddd" / "-0.000ddddddd"
\*   fi : an integral value with every digit and no point, "dddddddddddddddd" / "ddddddd"
\*   fd : a subnormal value (three-digit / two-digit negative exponent)
\*   fx : the largest magnitudes of the type on the lattice (1.79769313486231e+308 / 3.40282e+38)
TCFltShapes == {"fs", "fl", "fz", "fi", "fd", "fx"}
TCFltToks  == {"nan", "pinf", "ninf", "pz", "nz", "fa", "fb"} \cup TCFltShapes
\* what scanf makes of a run of number characters.  |min| = max + 1 ("10" after "9") does not fit:
\* the conversions of the 1-, 2- and 4-byte integers wrap it round to min, strtol clamps the 8-byte one to max.
TCTokOf(run, fld) ==
    LET cand == IF fld.k = "f" THEN TCFltToks ELSE TCIntToks
    IN IF \E x \in cand : TCNumText[x] = run THEN CHOOSE x \in cand : TCNumText[x] = run
       ELSE IF fld.k = "i" /\ run = <<"1", "0">> THEN (IF fld.w < 8 THEN "min" ELSE "max")
       ELSE "garbage"

\* ---- writer: WriteRows / WriteField / WriteStringAsAscii / WriteNumberAsAscii ----------
TCPad(e, w)       == e \o [i \in 1..(w - Len(e)) |-> "nul"]
TCWriteElem(f, e) == IF TCIsStr(f) THEN TCPad(e, f.w) ELSE TCNumText[e]
TCWriteCell(f, c) == TCJoin([e \in 1..Len(c) |-> TCWriteElem(f, c[e])], <<"dl">>)      \* element delimiter
TCWriteRow(fs, r) == TCJoin([i \in 1..Len(fs) |-> TCWriteCell(fs[i], r[i])], <<"dl">>) \o <<"nl">>
TCWriteRows(t)    == TCFlat([r \in 1..Len(t.rows) |-> TCWriteRow(t.fields, t.rows[r])])

\* =================================================================================
\* THE DELIMITER AS A DIMENSION  ("for every single-character delimiter")
\* A delimiter is a character code.  The universe is tab, vertical tab, form feed and the 95
\* printable ASCII characters (line feed and carriage return terminate lines; NUL is the empty
\* delimiter, i.e. a binary file).  A delimiter is *inherently ambiguous* - and therefore outside
\* the quantifier of the statement, whatever the implementation - when a file written with it
\* cannot be tokenised by the number grammar of C (strtol/strtod as used by scanf) alone:
\*   (a) it occurs in the text of a number as "%d", "%u", "%.16g", "%.7g" print it
\*       (digits + - . e and the letters of nan and inf), or
\*   (b) it continues such a text into a longer number token: after a written "0" the hexadecimal
\*       prefix x/X, after an integer part '.', after digits e/E, after "inf" the i/I of "infinity".
\*       (ISO C also lets "nan" continue with "(n-char-sequence)"; the scanf of this platform reads
\*       "nan" alone, so '(' is kept inside the quantifier - trusted-base note of the adapter.)
\* TCContinue lists (b) by the state in which a written number text ends.
\* =================================================================================
TCDigitCodes      == 48..57
TCDelimUniverse   == {9, 11, 12} \cup (32..126)
TCWrittenNumCodes == TCDigitCodes \cup {43, 45, 46, 101, 110, 97, 105, 102}            \* + - . e n a i f
TCContinue == [zero  |-> TCDigitCodes \cup {46, 101, 69, 120, 88},                    \* "0"    then digit . e E x X
               whole |-> TCDigitCodes \cup {46, 101, 69},                             \* "12"   then digit . e E
               frac  |-> TCDigitCodes \cup {101, 69},                                 \* "1.5"  then digit e E
               expo  |-> TCDigitCodes,                                                \* "1e+09" then digit
               inf   |-> {105, 73},                                                   \* "inf"  then i I (infinity)
               nan   |-> {}]                                                          \* "nan"
TCAmbiguousCodes  == TCWrittenNumCodes \cup UNION {TCContinue[st] : st \in DOMAIN TCContinue}
TCQuantDelims     == TCDelimUniverse \ TCAmbiguousCodes          \* the delimiters the statement quantifies over
TCListedDelims    == {44, 58, 9, 32, 59, 124}                    \* , : tab space ; |  (the catalogue of the quantifier text)

\* mechanism class (how records.cpp treats it) and syntactic group (what else the character means
\* to the layers it passes through: printf/scanf formats, the python literal of the sfile header,
\* brackets of the bracketed-array mode, comment characters, letters next to numbers)
TCDelimClass(c) == IF c = 32 THEN "space" ELSE IF c \in {9, 11, 12} THEN "tab"
                   ELSE IF c \in TCAmbiguousCodes THEN "ambiguous" ELSE "plain"
TCDelimGroup(c) == IF c \in TCAmbiguousCodes THEN "ambiguous"
                   ELSE IF c \in {9, 11, 12, 32} THEN "white"
                   ELSE IF c \in {44, 58, 59, 124} THEN "listed"
                   ELSE IF c = 37 THEN "percent"                  \* introduces a conversion in a printf/scanf format
                   ELSE IF c \in {34, 39, 92} THEN "pyquote"      \* " ' \ : syntax of a python string literal (header _DELIM)
                   ELSE IF c \in {40, 41, 60, 62, 91, 93, 123, 125} THEN "bracket"
                   ELSE IF c = 35 THEN "hash"
                   ELSE IF c \in (65..90) \cup (97..122) THEN "letter"
                   ELSE "punct"

\* ---- printf in miniature: a format is a sequence of characters; '%' introduces a conversion
\* ("%d"/"%s" print the argument, "%%" prints a percent sign, the argument is used once).  Inside a
\* format the delimiter character is the token "dl"; it *is* a percent sign when the code is 37.
TCIsPct(tok, c) == tok = "%" \/ (tok = "dl" /\ c = 37)
TCPctTok(c)     == IF c = 37 THEN "dl" ELSE "%"
RECURSIVE TCPrintf(_, _, _)
TCPrintf(fmt, arg, c) ==
    IF fmt = <<>> THEN <<>>
    ELSE IF ~TCIsPct(fmt[1], c) THEN <<fmt[1]>> \o TCPrintf(Tail(fmt), arg, c)
    ELSE IF Len(fmt) = 1 THEN <<>>                                                     \* incomplete conversion: nothing
    ELSE IF TCIsPct(fmt[2], c) THEN <<TCPctTok(c)>> \o TCPrintf(SubSeq(fmt, 3, Len(fmt)), arg, c)
    ELSE IF fmt[2] \in {"d", "s"} THEN arg \o TCPrintf(SubSeq(fmt, 3, Len(fmt)), <<>>, c)
    ELSE TCPrintf(SubSeq(fmt, 3, Len(fmt)), arg, c)                                     \* unknown conversion: nothing

\* ---- writer, per value, for the delimiter code c.  wr = "arg": the separator is the *argument*
\* of fprintf(fp, "%s", mDelim) (records.cpp WriteField) - "fmt": the separator is concatenated in
\* front of the number's print format (one stdio call per number), the deviating variant.
TCRowVals(fs, r) == TCFlat([i \in 1..Len(fs) |-> [e \in 1..Len(r[i]) |-> [fld |-> fs[i], el |-> r[i][e]]]])
TCSepText(c)     == TCPrintf(<<"%", "s">>, <<"dl">>, c)
TCWriteVal(v, lead, c, wr) ==
    IF TCIsStr(v.fld) THEN (IF lead THEN TCSepText(c) ELSE <<>>) \o TCPad(v.el, v.fld.w)           \* fputc per byte
    ELSE IF wr = "fmt" /\ lead THEN TCPrintf(<<"dl", "%", "d">>, TCNumText[v.el], c)
    ELSE (IF lead THEN TCSepText(c) ELSE <<>>) \o TCPrintf(<<"%", "d">>, TCNumText[v.el], c)
TCWriteRowD(fs, r, c, wr) ==
    LET vs == TCRowVals(fs, r) IN TCFlat([k \in 1..Len(vs) |-> TCWriteVal(vs[k], k > 1, c, wr)]) \o <<"nl">>
TCWriteRowsD(t, c, wr) == TCFlat([r \in 1..Len(t.rows) |-> TCWriteRowD(t.fields, t.rows[r], c, wr)])
\* a number that is not the first value of its row (it is written after a separator)
TCHasLedNumber(t) == \E r \in 1..Len(t.rows) : LET vs == TCRowVals(t.fields, t.rows[r])
                                                IN \E k \in 2..Len(vs) : ~TCIsStr(vs[k].fld)

\* ---- the writer's scale laws: row blocks concatenate, a sub-array is written like scalar fields
TCUnroll(t) == [fields |-> TCFlat([i \in 1..Len(t.fields) |-> [e \in 1..TCNel(t.fields[i]) |-> [t.fields[i] EXCEPT !.sh = <<>>]]]),
                rows   |-> [r \in 1..Len(t.rows) |-> TCFlat([i \in 1..Len(t.fields) |-> [e \in 1..Len(t.rows[r][i]) |-> <<t.rows[r][i][e]>>]])]]
TCWriteLaws(t) ==
    /\ \A k \in 1..(Len(t.rows) - 1) :
          TCWriteRows(t) = TCWriteRows(TCRowsOf(t, 1, k)) \o TCWriteRows(TCRowsOf(t, k + 1, Len(t.rows)))
    /\ TCWriteRows(TCUnroll(t)) = TCWriteRows(t)

\* ---- scanner --------------------------------------------------------------------------
RECURSIVE TCSkipWS(_, _, _)
TCSkipWS(f, p, dc) == IF p <= Len(f) /\ TCIsWS(f[p], dc) THEN TCSkipWS(f, p + 1, dc) ELSE p
RECURSIVE TCEndRun(_, _)
TCEndRun(f, p) == IF p <= Len(f) /\ f[p] \in TCNumChars THEN TCEndRun(f, p + 1) ELSE p

TCGot(v, p) == [ok |-> TRUE, val |-> v, pos |-> p]
TCFail(p)   == [ok |-> FALSE, val |-> "error", pos |-> p]

TCWsMode(dc, reader) == dc = "space" \/ reader = "fixed"

\* one fscanf(fp, mScanFormats[type]) of scan_column_values, with its fall-back
TCScanNum(f, p, fld, dc, reader) ==
    LET p1 == TCSkipWS(f, p, dc)                                 \* %d skips leading white space, newlines included
    IN IF p1 > Len(f) THEN TCFail(p1)                            \* EOF
       ELSE IF f[p1] \notin TCNumChars THEN                      \* matching failure
            IF dc # "space" /\ f[p1] = "dl" /\ fld.k = "f"
            THEN TCGot("nan", p1 + 1)                            \* empty field -> nan (fgetc took the delimiter)
            ELSE TCFail(p1)
       ELSE LET p2 == TCEndRun(f, p1)
                v  == TCTokOf(SubSeq(f, p1, p2 - 1), fld)
            IN IF reader = "fixed" THEN TCGot(v, p2 + 1)         \* number, then exactly one character
               ELSE IF dc = "space" THEN TCGot(v, p2)            \* "%d"; the caller does one fgetc per field
               ELSE LET p3 == TCSkipWS(f, p2, dc)                \* the ' ' directive (and '\t' when it is the delimiter)
                    IN IF dc = "plain" /\ p3 <= Len(f) /\ f[p3] = "dl" THEN TCGot(v, p3 + 1)   \* the literal, if it is there
                       ELSE TCGot(v, p3)

\* read_ascii_bytes: exactly w bytes, then one more (delimiter or end of line)
TCReadStr(f, p, w) == IF p + w - 1 > Len(f) THEN TCFail(p) ELSE TCGot(SubSeq(f, p, p + w - 1), p + w + 1)

RECURSIVE TCStripNul(_)
TCStripNul(s) == IF s # <<>> /\ s[Len(s)] = "nul" THEN TCStripNul(SubSeq(s, 1, Len(s) - 1)) ELSE s

\* read_from_text_column: all elements of one field
RECURSIVE TCReadElems(_, _, _, _, _, _, _)
TCReadElems(fld, n, f, p, dc, reader, acc) ==
    IF n = 0 THEN TCGot(acc, p)
    ELSE LET r == IF TCIsStr(fld) THEN TCReadStr(f, p, fld.w) ELSE TCScanNum(f, p, fld, dc, reader)
         IN IF ~r.ok THEN TCFail(r.pos)
            ELSE LET v == IF TCIsStr(fld) THEN TCStripNul(r.val) ELSE r.val
                 IN TCReadElems(fld, n - 1, f, r.pos, dc, reader, acc \o <<v>>)
TCReadCell(fld, f, p, dc, reader) ==
    LET r == TCReadElems(fld, TCNel(fld), f, p, dc, reader, <<>>)
    IN IF r.ok /\ ~TCIsStr(fld) /\ dc = "space" /\ reader = "pinned"
       THEN TCGot(r.val, r.pos + 1)                              \* "for whitespace we haven't read the delimiter yet"
       ELSE r

RECURSIVE TCReadRow(_, _, _, _, _, _, _)
TCReadRow(fs, i, f, p, dc, reader, acc) ==
    IF i > Len(fs) THEN TCGot(acc, p)
    ELSE LET r == TCReadCell(fs[i], f, p, dc, reader)
         IN IF ~r.ok THEN TCFail(r.pos) ELSE TCReadRow(fs, i + 1, f, r.pos, dc, reader, acc \o <<r.val>>)

RECURSIVE TCReadRowsFrom(_, _, _, _, _, _, _)
TCReadRowsFrom(fs, n, f, p, dc, reader, acc) ==
    IF n = 0 THEN Ok(acc)
    ELSE LET r == TCReadRow(fs, 1, f, p, dc, reader, <<>>)
         IN IF ~r.ok THEN Err("RuntimeError") ELSE TCReadRowsFrom(fs, n - 1, f, r.pos, dc, reader, acc \o <<r.val>>)
TCReadRows(fs, f, n, dc, reader) == TCReadRowsFrom(fs, n, f, 1, dc, reader, <<>>)

TCRoundTrips(t, dc, reader) == TCReadRows(t.fields, TCWriteRows(t), Len(t.rows), dc, reader) = Ok(t.rows)

\* ---------------------------------------------------------------------------------
\* Named deviations of the pinned scanner, stated structurally on the table.  A string
\* field is *exposed* when the scan of the number before it runs on into it:
\*   rowstart : it is the first field of a row after the first and the last field is a
\*              number (the scan of that number skips the newline and any white space
\*              that follows and then, with a plain delimiter, one delimiter character);
\*   inrow    : it directly follows a number in its row (only the tab format "%d \t"
\*              skips on after the delimiter).
\* It is *hit* when its first written character is white space (class ws) or, with a
\* plain delimiter at a row start, the delimiter itself (class delim).
TCLead(t, r, i) == LET e == t.rows[r][i][1] IN IF e = <<>> THEN "nul" ELSE e[1]
TCHazardAt(t, dc, r, i) ==
    LET fs == t.fields  c == TCLead(t, r, i)
    IN IF ~TCIsStr(fs[i]) \/ dc = "space" THEN "none"
       ELSE IF i = 1 /\ r > 1 /\ ~TCIsStr(fs[Len(fs)]) THEN
            (IF TCIsWS(c, dc) THEN "rowstart|lead=ws" ELSE IF c = "dl" THEN "rowstart|lead=delim" ELSE "none")
       ELSE IF i > 1 /\ ~TCIsStr(fs[i - 1]) /\ dc = "tab" /\ TCIsWS(c, dc) THEN "inrow|lead=ws"
       ELSE "none"

\* the first hazard in reading order (that is where the scanner loses its place)
TCHazard(t, dc) ==
    LET nf == Len(t.fields)
        RECURSIVE go(_)
        go(k) == IF k >= Len(t.rows) * nf THEN "none"
                 ELSE LET h == TCHazardAt(t, dc, (k \div nf) + 1, (k % nf) + 1)
                      IN IF h # "none" THEN h ELSE go(k + 1)
    IN go(0)

\* =================================================================================
\* WORLD (property level): several record files live in one process.  A session is
\*   [files : Seq([fields, chunks : Seq(rows)]), steps : Seq([f, op]), obs : Seq(observation)]
\* steps[i] is one call on file steps[i].f:
\*   "ow" open for writing (truncating), "wr" write the next chunk of the file's table, "cl" close,
\*   "wall" the one-shot write of the whole table, "or" open for reading, "rd" read everything through the
\*   open handle, "rall" the one-shot read.
\* The statement speaks about ONE file: what a read of file f must return is decided by the steps on f alone
\* (TCWWritten: the rows written to f since it was last truncated) - never by the steps on other files that
\* happen to be interleaved.  A read is judged (TCFailing) against that table once f is not open for writing;
\* a non-read step of a well-formed session must not fail.
\* =================================================================================
TCWReadOps == {"rd", "rall"}
RECURSIVE TCWFold(_, _, _, _)                    \* state of file f after steps 1..i: rows written, chunks written, open for writing
TCWFold(files, steps, f, i) ==
    IF i = 0 THEN [rows |-> <<>>, nch |-> 0, wopen |-> FALSE]
    ELSE LET p == TCWFold(files, steps, f, i - 1)
             s == steps[i]
         IN IF s.f # f THEN p
            ELSE CASE s.op = "ow"   -> [rows |-> <<>>, nch |-> 0, wopen |-> TRUE]
                   [] s.op = "wr"   -> [rows |-> p.rows \o files[f].chunks[p.nch + 1], nch |-> p.nch + 1, wopen |-> p.wopen]
                   [] s.op = "wall" -> [rows |-> TCFlat(files[f].chunks), nch |-> Len(files[f].chunks), wopen |-> FALSE]
                   [] s.op = "cl"   -> [p EXCEPT !.wopen = FALSE]
                   [] OTHER         -> p
TCWWritten(files, steps, i) == TCWFold(files, steps, steps[i].f, i - 1)
TCWStepFailing(r, i) ==
    LET s == r.steps[i]
        w == TCWWritten(r.files, r.steps, i)
    IN IF s.op \in TCWReadOps
       THEN (IF w.wopen THEN {} ELSE TCFailing([fields |-> r.files[s.f].fields, rows |-> w.rows], r.obs[i]))
       ELSE (IF r.obs[i].err # "none" THEN {"step_error"} ELSE {})
TCWSessionFailing(r) == UNION {{ToString(i) \o ":" \o c : c \in TCWStepFailing(r, i)} : i \in DOMAIN r.steps}
=============================================================================
