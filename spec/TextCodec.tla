------------------------------- MODULE TextCodec -------------------------------
(* C04 - delimited-text record files round-trip values and structure.              *)
(*                                                                                *)
(* Two levels.                                                                    *)
(*                                                                                *)
(* PROPERTY LEVEL (TCFailing): a table is                                         *)
(*    [fields : Seq([name, k, w, sh]), rows : Seq(Seq(cell))]                     *)
(*  k in {"i","u","f","S"} (signed / unsigned integer, float, byte string),        *)
(*  w the item size in bytes, sh the sub-array shape (<<>> = scalar).  A cell is  *)
(*  the sequence of the field's elements in C order.  Elements are abstract:      *)
(*    number : a STRING token.  In the bounded model the symbolic tokens          *)
(*             min m1 z p1 max / nan pinf ninf pz nz fa fb; in recorded           *)
(*             observations the decimal text of an integer, and for floats        *)
(*             nan pinf ninf pz nz or the exact hexadecimal text of the value     *)
(*             (so that token equality is value equality with NaN |-> NaN and     *)
(*             the sign of zero and of infinity preserved);                       *)
(*    string : the sequence of its characters without the trailing NUL pad, each  *)
(*             character a token: "sp" space, "dl" the delimiter character of the *)
(*             run, "tb" a tab that is not the delimiter, "nul", or the           *)
(*             character itself ("x" is the letter of the bounded model).         *)
(*  The round trip must return the same names, types and shapes, every field in   *)
(*  native order, equal cells, and (sfile) a header that records the delimiter    *)
(*  and a dtype without byte-order characters.  Each clause is named.             *)
(*                                                                                *)
(* MECHANISM LEVEL (TCWriteRows / TCScanNum / TCReadStr / TCReadRows): the        *)
(*  character-level writer and scanner of esutil/recfile/records.cpp              *)
(*  (WriteRows, WriteField, scan_column_values, read_ascii_bytes,                 *)
(*  read_from_text_column, make_scan_formats) transcribed as operators over a     *)
(*  file = Seq(character token).  Obligation: TCReadRows(TCWriteRows(t)) = t.     *)
(*  The pinned code does not meet it; the deviations are *named* (TCHazard) and   *)
(*  the reader has a repaired variant (reader = "fixed") that does.               *)
EXTENDS VU

\* ---------------------------------------------------------------------------------
\* catalogue of field types and sub-array shapes (cfg files can only carry strings)
TCTypes == [i1 |-> [k |-> "i", w |-> 1], u1 |-> [k |-> "u", w |-> 1],
            i2 |-> [k |-> "i", w |-> 2], u2 |-> [k |-> "u", w |-> 2],
            i4 |-> [k |-> "i", w |-> 4], u4 |-> [k |-> "u", w |-> 4],
            i8 |-> [k |-> "i", w |-> 8], u8 |-> [k |-> "u", w |-> 8],
            f4 |-> [k |-> "f", w |-> 4], f8 |-> [k |-> "f", w |-> 8],
            S1 |-> [k |-> "S", w |-> 1], S2 |-> [k |-> "S", w |-> 2], S3 |-> [k |-> "S", w |-> 3],
            S4 |-> [k |-> "S", w |-> 4], S5 |-> [k |-> "S", w |-> 5], S6 |-> [k |-> "S", w |-> 6],
            S7 |-> [k |-> "S", w |-> 7], S8 |-> [k |-> "S", w |-> 8], S9 |-> [k |-> "S", w |-> 9],
            S10 |-> [k |-> "S", w |-> 10], S11 |-> [k |-> "S", w |-> 11], S12 |-> [k |-> "S", w |-> 12]]
TCShapes == [s |-> <<>>, v2 |-> <<2>>, v3 |-> <<3>>, m22 |-> <<2, 2>>, m23 |-> <<2, 3>>]

RECURSIVE TCProd(_)
TCProd(s)  == IF s = <<>> THEN 1 ELSE Head(s) * TCProd(Tail(s))
TCNel(f)   == TCProd(f.sh)
TCIsStr(f) == f.k = "S"

RECURSIVE TCFlat(_)                               \* concatenation of a sequence of sequences
TCFlat(ss) == IF ss = <<>> THEN <<>> ELSE Head(ss) \o TCFlat(Tail(ss))

RECURSIVE TCJoin(_, _)                            \* ... with a separator between the parts
TCJoin(ss, sep) == IF ss = <<>> THEN <<>>
                   ELSE IF Len(ss) = 1 THEN ss[1] ELSE ss[1] \o sep \o TCJoin(Tail(ss), sep)

\* =================================================================================
\* PROPERTY LEVEL
\* An observation of one write/read cycle:
\*   [entry : "sfile"|"recfile", order : STRING, err : "none" | <exception class>,
\*    fields : Seq([name, k, w, sh, bo]),  bo in {"native","swapped","none"}
\*    rows   : same shape as the table's rows,
\*    hdr    : [has : BOOLEAN, delim : "dl"|"missing"|"other",
\*              dtype : Seq([name, k, w, sh, bofree : BOOLEAN])]]
\* =================================================================================
TCSameLen(t, o)  == Len(o.fields) = Len(t.fields)
TCNamesOK(t, o)  == TCSameLen(t, o) /\ \A i \in 1..Len(t.fields) : o.fields[i].name = t.fields[i].name
TCTypesOK(t, o)  == TCSameLen(t, o) /\ \A i \in 1..Len(t.fields) : o.fields[i].k = t.fields[i].k /\ o.fields[i].w = t.fields[i].w
TCShapesOK(t, o) == TCSameLen(t, o) /\ \A i \in 1..Len(t.fields) : o.fields[i].sh = t.fields[i].sh
TCNativeOK(o)    == \A i \in 1..Len(o.fields) : o.fields[i].bo \in {"native", "none"}

\* cells of the fields of kind set K are equal (only evaluated when the structure matches)
TCCellsOK(t, o, K) ==
    \A r \in 1..Len(t.rows) : \A i \in 1..Len(t.fields) :
        t.fields[i].k \in K =>
            /\ Len(o.rows[r][i]) = Len(t.rows[r][i])
            /\ \A e \in 1..Len(t.rows[r][i]) : o.rows[r][i][e] = t.rows[r][i][e]

TCRowShapeOK(t, o) == \A r \in 1..Len(o.rows) : Len(o.rows[r]) = Len(t.fields)

TCHdrDtypeOK(t, o) ==
    /\ Len(o.hdr.dtype) = Len(t.fields)
    /\ \A i \in 1..Len(t.fields) : LET f == t.fields[i]  g == o.hdr.dtype[i]
                                   IN f.name = g.name /\ f.k = g.k /\ f.w = g.w /\ f.sh = g.sh

\* names of the clauses of the statement that the observation violates
TCFailing(t, o) ==
    IF o.err # "none" THEN {"rows_error"}                  \* "reading it back returns the same rows"
    ELSE (IF TCNamesOK(t, o) THEN {} ELSE {"names"}) \cup
         (IF Len(o.fields) = Len(t.fields) /\ ~TCTypesOK(t, o) THEN {"types"} ELSE {}) \cup
         (IF Len(o.fields) = Len(t.fields) /\ ~TCShapesOK(t, o) THEN {"shapes"} ELSE {}) \cup
         (IF TCNativeOK(o) THEN {} ELSE {"native_order"}) \cup
         (IF Len(o.rows) # Len(t.rows) THEN {"rows_count"}
          ELSE IF ~(TCNamesOK(t, o) /\ TCTypesOK(t, o) /\ TCShapesOK(t, o) /\ TCRowShapeOK(t, o)) THEN {}
          ELSE (IF TCCellsOK(t, o, {"i", "u"}) THEN {} ELSE {"rows_int"}) \cup
               (IF TCCellsOK(t, o, {"S"}) THEN {} ELSE {"rows_str"}) \cup
               (IF TCCellsOK(t, o, {"f"}) THEN {} ELSE {"rows_float"})) \cup
         (IF ~o.hdr.has THEN {}
          ELSE (IF o.hdr.delim = "dl" THEN {} ELSE {"hdr_delim"}) \cup
               (IF \A i \in 1..Len(o.hdr.dtype) : o.hdr.dtype[i].bofree THEN {} ELSE {"hdr_dtype_byteorder"}) \cup
               (IF TCHdrDtypeOK(t, o) THEN {} ELSE {"hdr_dtype"}))

TCAccept(t, o) == TCFailing(t, o) = {}

\* what a conforming implementation returns (used for export and for self-tests)
TCRefObs(t, entry) ==
    [entry |-> entry, order |-> "lt", err |-> "none",
     fields |-> [i \in 1..Len(t.fields) |-> [name |-> t.fields[i].name, k |-> t.fields[i].k, w |-> t.fields[i].w,
                                              sh |-> t.fields[i].sh, bo |-> IF t.fields[i].w = 1 \/ t.fields[i].k = "S" THEN "none" ELSE "native"]],
     rows |-> t.rows,
     hdr |-> [has |-> entry = "sfile", delim |-> "dl",
              dtype |-> IF entry = "sfile"
                        THEN [i \in 1..Len(t.fields) |-> [name |-> t.fields[i].name, k |-> t.fields[i].k, w |-> t.fields[i].w,
                                                           sh |-> t.fields[i].sh, bofree |-> TRUE]]
                        ELSE <<>>]]

\* =================================================================================
\* MECHANISM LEVEL  (records.cpp)
\*   dc     : delimiter class.  "plain" (',' ':' ';' '|'): scan format "%d <delim>";
\*            "tab": the format is "%d \t" - both trailing characters are white-space
\*            directives; "space": mReadAsWhitespace, format "%d" and one fgetc per field.
\*   reader : "pinned" = the code as anchored; "fixed" = every delimiter is read the way
\*            the white-space mode is: number, then exactly one character.
\* =================================================================================
TCWSChars == {"sp", "tb", "nl"}
TCIsWS(c, dc) == c \in TCWSChars \/ (c = "dl" /\ dc \in {"tab", "space"})

\* decimal text of the symbolic number tokens (what printf would produce, in miniature:
\* an optional sign and one or more number characters; distinct tokens, distinct texts;
\* max is "9" and min is "-10", one more in magnitude, as in two's complement)
TCNumText == [min |-> <<"-", "1", "0">>, m1 |-> <<"-", "1">>, z |-> <<"0">>, p1 |-> <<"1">>, max |-> <<"9">>,
              nan |-> <<"n", "a", "n">>, pinf |-> <<"i", "n", "f">>, ninf |-> <<"-", "i", "n", "f">>,
              pz |-> <<"0">>, nz |-> <<"-", "0">>,
              fa |-> <<"1", ".", "5">>, fb |-> <<"-", "2", "e", "9">>]
TCNumChars == {"-", "0", "1", "2", "5", "9", "n", "a", "i", "f", ".", "e"}   \* the letter of string cells is "x"
TCIntToks  == {"min", "m1", "z", "p1", "max"}
TCFltToks  == {"nan", "pinf", "ninf", "pz", "nz", "fa", "fb"}
\* what scanf makes of a run of number characters.  |min| = max + 1 ("10" after "9") does not fit:
\* the conversions of the 1-, 2- and 4-byte integers wrap it round to min, strtol clamps the 8-byte one to max.
TCTokOf(run, fld) ==
    LET cand == IF fld.k = "f" THEN TCFltToks ELSE TCIntToks
    IN IF \E x \in cand : TCNumText[x] = run THEN CHOOSE x \in cand : TCNumText[x] = run
       ELSE IF fld.k = "i" /\ run = <<"1", "0">> THEN (IF fld.w < 8 THEN "min" ELSE "max")
       ELSE "garbage"

\* ---- writer: WriteRows / WriteField / WriteStringAsAscii / WriteNumberAsAscii ----------
TCPad(e, w)       == e \o [i \in 1..(w - Len(e)) |-> "nul"]
TCWriteElem(f, e) == IF TCIsStr(f) THEN TCPad(e, f.w) ELSE TCNumText[e]
TCWriteCell(f, c) == TCJoin([e \in 1..Len(c) |-> TCWriteElem(f, c[e])], <<"dl">>)      \* element delimiter
TCWriteRow(fs, r) == TCJoin([i \in 1..Len(fs) |-> TCWriteCell(fs[i], r[i])], <<"dl">>) \o <<"nl">>
TCWriteRows(t)    == TCFlat([r \in 1..Len(t.rows) |-> TCWriteRow(t.fields, t.rows[r])])

\* ---- scanner --------------------------------------------------------------------------
RECURSIVE TCSkipWS(_, _, _)
TCSkipWS(f, p, dc) == IF p <= Len(f) /\ TCIsWS(f[p], dc) THEN TCSkipWS(f, p + 1, dc) ELSE p
RECURSIVE TCEndRun(_, _)
TCEndRun(f, p) == IF p <= Len(f) /\ f[p] \in TCNumChars THEN TCEndRun(f, p + 1) ELSE p

TCGot(v, p) == [ok |-> TRUE, val |-> v, pos |-> p]
TCFail(p)   == [ok |-> FALSE, val |-> "error", pos |-> p]

TCWsMode(dc, reader) == dc = "space" \/ reader = "fixed"

\* one fscanf(fp, mScanFormats[type]) of scan_column_values, with its fall-back
TCScanNum(f, p, fld, dc, reader) ==
    LET p1 == TCSkipWS(f, p, dc)                                 \* %d skips leading white space, newlines included
    IN IF p1 > Len(f) THEN TCFail(p1)                            \* EOF
       ELSE IF f[p1] \notin TCNumChars THEN                      \* matching failure
            IF dc # "space" /\ f[p1] = "dl" /\ fld.k = "f"
            THEN TCGot("nan", p1 + 1)                            \* empty field -> nan (fgetc took the delimiter)
            ELSE TCFail(p1)
       ELSE LET p2 == TCEndRun(f, p1)
                v  == TCTokOf(SubSeq(f, p1, p2 - 1), fld)
            IN IF reader = "fixed" THEN TCGot(v, p2 + 1)         \* number, then exactly one character
               ELSE IF dc = "space" THEN TCGot(v, p2)            \* "%d"; the caller does one fgetc per field
               ELSE LET p3 == TCSkipWS(f, p2, dc)                \* the ' ' directive (and '\t' when it is the delimiter)
                    IN IF dc = "plain" /\ p3 <= Len(f) /\ f[p3] = "dl" THEN TCGot(v, p3 + 1)   \* the literal, if it is there
                       ELSE TCGot(v, p3)

\* read_ascii_bytes: exactly w bytes, then one more (delimiter or end of line)
TCReadStr(f, p, w) == IF p + w - 1 > Len(f) THEN TCFail(p) ELSE TCGot(SubSeq(f, p, p + w - 1), p + w + 1)

RECURSIVE TCStripNul(_)
TCStripNul(s) == IF s # <<>> /\ s[Len(s)] = "nul" THEN TCStripNul(SubSeq(s, 1, Len(s) - 1)) ELSE s

\* read_from_text_column: all elements of one field
RECURSIVE TCReadElems(_, _, _, _, _, _, _)
TCReadElems(fld, n, f, p, dc, reader, acc) ==
    IF n = 0 THEN TCGot(acc, p)
    ELSE LET r == IF TCIsStr(fld) THEN TCReadStr(f, p, fld.w) ELSE TCScanNum(f, p, fld, dc, reader)
         IN IF ~r.ok THEN TCFail(r.pos)
            ELSE LET v == IF TCIsStr(fld) THEN TCStripNul(r.val) ELSE r.val
                 IN TCReadElems(fld, n - 1, f, r.pos, dc, reader, acc \o <<v>>)
TCReadCell(fld, f, p, dc, reader) ==
    LET r == TCReadElems(fld, TCNel(fld), f, p, dc, reader, <<>>)
    IN IF r.ok /\ ~TCIsStr(fld) /\ dc = "space" /\ reader = "pinned"
       THEN TCGot(r.val, r.pos + 1)                              \* "for whitespace we haven't read the delimiter yet"
       ELSE r

RECURSIVE TCReadRow(_, _, _, _, _, _, _)
TCReadRow(fs, i, f, p, dc, reader, acc) ==
    IF i > Len(fs) THEN TCGot(acc, p)
    ELSE LET r == TCReadCell(fs[i], f, p, dc, reader)
         IN IF ~r.ok THEN TCFail(r.pos) ELSE TCReadRow(fs, i + 1, f, r.pos, dc, reader, acc \o <<r.val>>)

RECURSIVE TCReadRowsFrom(_, _, _, _, _, _, _)
TCReadRowsFrom(fs, n, f, p, dc, reader, acc) ==
    IF n = 0 THEN Ok(acc)
    ELSE LET r == TCReadRow(fs, 1, f, p, dc, reader, <<>>)
         IN IF ~r.ok THEN Err("RuntimeError") ELSE TCReadRowsFrom(fs, n - 1, f, r.pos, dc, reader, acc \o <<r.val>>)
TCReadRows(fs, f, n, dc, reader) == TCReadRowsFrom(fs, n, f, 1, dc, reader, <<>>)

TCRoundTrips(t, dc, reader) == TCReadRows(t.fields, TCWriteRows(t), Len(t.rows), dc, reader) = Ok(t.rows)

\* ---------------------------------------------------------------------------------
\* Named deviations of the pinned scanner, stated structurally on the table.  A string
\* field is *exposed* when the scan of the number before it runs on into it:
\*   rowstart : it is the first field of a row after the first and the last field is a
\*              number (the scan of that number skips the newline and any white space
\*              that follows and then, with a plain delimiter, one delimiter character);
\*   inrow    : it directly follows a number in its row (only the tab format "%d \t"
\*              skips on after the delimiter).
\* It is *hit* when its first written character is white space (class ws) or, with a
\* plain delimiter at a row start, the delimiter itself (class delim).
TCLead(t, r, i) == LET e == t.rows[r][i][1] IN IF e = <<>> THEN "nul" ELSE e[1]
TCHazardAt(t, dc, r, i) ==
    LET fs == t.fields  c == TCLead(t, r, i)
    IN IF ~TCIsStr(fs[i]) \/ dc = "space" THEN "none"
       ELSE IF i = 1 /\ r > 1 /\ ~TCIsStr(fs[Len(fs)]) THEN
            (IF TCIsWS(c, dc) THEN "rowstart|lead=ws" ELSE IF c = "dl" THEN "rowstart|lead=delim" ELSE "none")
       ELSE IF i > 1 /\ ~TCIsStr(fs[i - 1]) /\ dc = "tab" /\ TCIsWS(c, dc) THEN "inrow|lead=ws"
       ELSE "none"

\* the first hazard in reading order (that is where the scanner loses its place)
TCHazard(t, dc) ==
    LET nf == Len(t.fields)
        RECURSIVE go(_)
        go(k) == IF k >= Len(t.rows) * nf THEN "none"
                 ELSE LET h == TCHazardAt(t, dc, (k \div nf) + 1, (k % nf) + 1)
                      IN IF h # "none" THEN h ELSE go(k + 1)
    IN go(0)
=============================================================================
