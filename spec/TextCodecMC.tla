------------------------------- MODULE TextCodecMC -------------------------------
(* Exhaustive small-scope model for C04.                                          *)
(*  - ChooseLayout / ChooseRows enumerate every table of the bounded families     *)
(*    (these states are exported as JSON and every one is written and read back   *)
(*    with the real code, for every delimiter);                                   *)
(*  - Write / ReadStrField / ScanNumField / Finish run the character-level        *)
(*    mechanism of TextCodec.tla (records.cpp) on the table, one action per field *)
(*    read, for every delimiter class;                                            *)
(*  - MechRefines: the finished read returned the table.  The pinned scanner      *)
(*    violates it; MechRefinesModHazards says that it does so only on the named   *)
(*    hazards, and Reader = "fixed" meets MechRefines.                            *)
(*  - The delimiter is a dimension of the space: DelimsFor(F, t) - a subset of    *)
(*    TCQuantDelims chosen per table (all of them, or a covering subset spread by *)
(*    a hash of the table) - is exported with every table (field `delims`) and,   *)
(*    with DelimRun = "plan", run through the mechanism, whose writer prints the  *)
(*    separator through the printf model of TextCodec.tla.  Writer = "fmt" (the   *)
(*    separator inside the print format) is the deviating variant: it breaks the  *)
(*    round trip exactly for the percent sign (FmtWriterCharacterised).           *)
EXTENDS TextCodec, Json

CONSTANTS Fams,         \* names of the bounded families to explore (fields of FamDefs)
          DClasses,     \* delimiter classes run through the mechanism
          Reader,       \* "pinned" | "fixed"
          Writer,       \* "arg" (records.cpp) | "fmt" (separator inside the print format)
          DelimRun,     \* "classes": one delimiter per class (',' tab space) | "plan": DelimsFor(family, table)
          ScaleTier,    \* "quick" | "thorough": which scale cases are exported
          DoExport      \* TRUE: print every table as JSON

VARIABLES phase, fam, lay, t, dc, dcd, txt, pos, ri, fi, cur, acc, res
vars == <<phase, fam, lay, t, dc, dcd, txt, pos, ri, fi, cur, acc, res>>

\* ---- the bounded families ---------------------------------------------------------
\* A family: layouts of 1..MaxFields fields over Types x Shapes with at most MaxRowEl
\* elements per row (Filter: "any" | "adj" = a string next to a number, or a single
\* string field | "num" = numbers only); tables of 1..MaxRows rows as long as the layout
\* has at most Cap tables of that many rows; cells over the token sets; strings up to
\* width ExhW take every word over Chars, wider ones the 12 patterns.
NumTypes == {"i1", "u1", "i2", "u2", "i4", "u4", "i8", "u8", "f4", "f8"}
AllInt   == {"min", "m1", "z", "p1", "max"}
AllFlt   == {"nan", "pinf", "ninf", "pz", "nz", "fa", "fb"}
Base == [Types |-> {"i4", "S1"}, Shapes |-> {"s"}, MaxFields |-> 2, MaxRowEl |-> 4, MaxRows |-> 2, Cap |-> 700,
         Filter |-> "any", IntToks |-> {"p1"}, UIntToks |-> {"z", "p1", "max"}, FltToks |-> {"nan", "fa"},
         Chars |-> {"sp", "dl", "x"}, ExhW |-> 3,
         \* delimiters of a table: DAlways and DCount more of TCQuantDelims, spread by the table's hash
         DAlways |-> {9, 32}, DCount |-> 2]
Thor == [Base EXCEPT !.DAlways = {9, 32, 44}, !.DCount = 3]
AllDelims == Cardinality(TCQuantDelims)
ShapeFlt == {"fs", "fl", "fz", "fi", "fd", "fx"}
FamDefs == [
  \* ---- quick tier
  q_adj2    |-> [Base EXCEPT !.Types = {"i4", "S1", "S2"}],
  q_adj3    |-> [Base EXCEPT !.MaxFields = 3, !.Cap = 100, !.IntToks = {"min"}],
  q_arr     |-> [Base EXCEPT !.Types = {"i4", "f8", "S1"}, !.Shapes = {"s", "v2"}, !.MaxRowEl = 3, !.Cap = 100],
  q_types   |-> [Base EXCEPT !.Types = NumTypes, !.Shapes = {"s", "v2"}, !.MaxFields = 1, !.Cap = 50, !.Filter = "num",
                             !.IntToks = AllInt, !.FltToks = AllFlt],
  q_types22 |-> [Base EXCEPT !.Types = NumTypes, !.Shapes = {"m22"}, !.MaxFields = 1, !.MaxRows = 1, !.Cap = 100, !.Filter = "num",
                             !.IntToks = {"min", "max"}, !.UIntToks = {"z", "max"}, !.FltToks = {"nan", "ninf", "fa"}],
  q_numpair |-> [Base EXCEPT !.Types = NumTypes, !.MaxRows = 1, !.Cap = 20, !.Filter = "num",
                             !.IntToks = {"min", "max"}, !.UIntToks = {"max"}, !.FltToks = {"nan", "ninf", "fb"}],
  q_widths  |-> [Base EXCEPT !.Types = {"i4", "S12"}, !.Filter = "adj", !.Cap = 200],
  \* embedded NUL bytes inside a fixed-width string (a value like b'a\0b'; numpy strips only trailing NULs)
  q_nul     |-> [Base EXCEPT !.Types = {"i4", "S2", "S3"}, !.Chars = {"nul", "x"}, !.MaxRows = 1, !.Cap = 300, !.Filter = "adj"],
  \* the delimiter dimension: an adjacency-exhaustive family (number/string next to number/string, scalar and
  \* sub-array, one and two rows, strings with the delimiter in them), each table with a covering subset ...
  q_delim   |-> [Base EXCEPT !.Types = {"i4", "f8", "S1", "S2"}, !.Shapes = {"s", "v2"}, !.MaxRowEl = 3, !.Cap = 40,
                             !.IntToks = {"min"}, !.FltToks = {"nan", "fl"}, !.DAlways = {}, !.DCount = 8],
  \* ... and every numeric type (its own print and scan format), two values in a row, with every delimiter
  q_dtype   |-> [Base EXCEPT !.Types = NumTypes, !.Shapes = {"v2"}, !.MaxFields = 1, !.MaxRows = 1, !.Cap = 10, !.Filter = "num",
                             !.IntToks = {"min", "max"}, !.UIntToks = {"z", "max"}, !.FltToks = {"ninf", "fl"},
                             !.DAlways = {}, !.DCount = AllDelims],
  \* the text shapes of finite floats (shortest, longest, fixed notation, integral, subnormal, largest) and -0
  q_fshape  |-> [Base EXCEPT !.Types = {"f4", "f8", "S1"}, !.Shapes = {"s", "v2"}, !.MaxRowEl = 3, !.Cap = 50,
                             !.FltToks = ShapeFlt \cup {"nz"}],
  \* ---- thorough tier
  t_adj2    |-> [Thor EXCEPT !.Types = {"i4", "S1", "S2", "S3"}, !.IntToks = {"p1", "min"}, !.Cap = 1700],
  t_adj2x   |-> [Thor EXCEPT !.Types = {"i4", "f8", "S1", "S2"}, !.Cap = 1300, !.Chars = {"sp", "dl", "tb", "x", "1"}],
  t_adj3    |-> [Thor EXCEPT !.Types = {"i4", "S1", "S2"}, !.MaxFields = 3],
  t_rows3   |-> [Thor EXCEPT !.MaxRows = 3, !.Cap = 600, !.IntToks = {"p1", "min"}],
  t_arr     |-> [Thor EXCEPT !.Types = {"i4", "f8", "S1", "S2"}, !.Shapes = {"s", "v2", "m22"}, !.MaxRowEl = 5],
  t_types   |-> [Thor EXCEPT !.Types = NumTypes, !.Shapes = {"s", "v2", "v3"}, !.MaxFields = 1, !.MaxRows = 3, !.Filter = "num",
                             !.IntToks = AllInt, !.FltToks = AllFlt],
  t_types22 |-> [Thor EXCEPT !.Types = NumTypes, !.Shapes = {"m22", "m23"}, !.MaxFields = 1, !.MaxRowEl = 6, !.MaxRows = 1, !.Cap = 800,
                             !.Filter = "num", !.IntToks = {"min", "z", "max"}, !.UIntToks = {"z", "max"},
                             !.FltToks = {"nan", "ninf", "nz", "fa"}],
  t_numpair |-> [Thor EXCEPT !.Types = NumTypes, !.Cap = 90, !.Filter = "num",
                             !.IntToks = {"min", "m1", "max"}, !.UIntToks = {"z", "max"}, !.FltToks = {"nan", "ninf", "fb"}],
  t_widths  |-> [Thor EXCEPT !.Types = {"i4", "S4", "S5", "S6", "S7", "S8", "S9", "S10", "S11", "S12"}, !.Filter = "adj", !.Cap = 200],
  t_widths3 |-> [Thor EXCEPT !.Types = {"f4", "S5", "S12"}, !.MaxFields = 3, !.Filter = "adj", !.Cap = 150, !.FltToks = {"fa"}],
  t_nul     |-> [Thor EXCEPT !.Types = {"i4", "S2", "S3"}, !.Shapes = {"s", "v2"}, !.Chars = {"nul", "x", "sp", "dl"}, !.Cap = 900],
  \* every table of the adjacency-exhaustive delimiter family with EVERY quantified delimiter (the other thorough
  \* families: tab, space, comma and three more spread by the hash)
  t_delim   |-> [Thor EXCEPT !.Types = {"i4", "f8", "S1", "S2"}, !.Shapes = {"s", "v2"}, !.MaxRowEl = 3, !.Cap = 60,
                             !.IntToks = {"min"}, !.FltToks = {"nan", "fl"}, !.DAlways = {}, !.DCount = AllDelims],
  \* every pair of numeric types (and every type as a two-element sub-array) with every quantified delimiter
  t_dtype   |-> [Thor EXCEPT !.Types = NumTypes, !.Shapes = {"s", "v2"}, !.MaxRowEl = 2, !.MaxRows = 1, !.Cap = 4, !.Filter = "num",
                             !.IntToks = {"min"}, !.UIntToks = {"max"}, !.FltToks = {"ninf", "fl"},
                             !.DAlways = {}, !.DCount = AllDelims],
  t_fshape  |-> [Thor EXCEPT !.Types = {"f4", "f8", "S1"}, !.Shapes = {"s", "v2", "v3"}, !.MaxRowEl = 4, !.Cap = 350,
                             !.FltToks = ShapeFlt \cup {"nz", "nan"}]
]

Names == <<"a", "b", "c", "d">>
NoTable == [fields |-> <<>>, rows |-> <<>>]

\* a stored string has no trailing NUL (that is the padding): words are the canonical values
Words(F, w) == {u \in UNION {[1..n -> F.Chars] : n \in 0..w} : u = <<>> \/ u[Len(u)] # "nul"}
Rep(c, n) == [i \in 1..n |-> c]
Patterns(w) ==                                  \* 12 sampled words for the wide strings
    LET P == {<<>>, Rep("x", w), <<"sp">> \o Rep("x", w - 1), Rep("x", w - 1) \o <<"sp">>,
              <<"dl">> \o Rep("x", w - 1), Rep("x", w - 1) \o <<"dl">>, Rep("sp", w), Rep("dl", w),
              <<"x">>, <<"sp">>, <<"dl", "x">>, <<"x">> \o Rep("sp", w - 2) \o <<"x">>}
    IN {p \in P : Len(p) <= w}

ElemSet(F, f) == IF f.k = "S" THEN (IF f.w <= F.ExhW THEN Words(F, f.w) ELSE Patterns(f.w))
                 ELSE IF f.k = "i" THEN F.IntToks ELSE IF f.k = "u" THEN F.UIntToks ELSE F.FltToks

RECURSIVE SeqProd(_)                            \* sequence of sets -> set of sequences
SeqProd(S) == IF S = <<>> THEN {<<>>} ELSE {<<x>> \o r : x \in Head(S), r \in SeqProd(Tail(S))}
CellSet(F, f) == SeqProd([e \in 1..TCNel(f) |-> ElemSet(F, f)])
RowSet(F, l)  == SeqProd([i \in 1..Len(l) |-> CellSet(F, l[i])])

RECURSIVE CapPow(_, _, _)                       \* b^e, saturating just above cap (32-bit integers)
CapPow(b, e, cap) == IF e = 0 THEN 1 ELSE LET r == CapPow(b, e - 1, cap) IN IF r > cap THEN r ELSE r * b
RECURSIVE RowCardFrom(_, _, _)
RowCardFrom(F, l, i) == IF i > Len(l) THEN 1
                        ELSE LET r == RowCardFrom(F, l, i + 1)
                                 c == CapPow(Cardinality(ElemSet(F, l[i])), TCNel(l[i]), F.Cap)
                             IN IF r > F.Cap \/ c > F.Cap THEN F.Cap + 1 ELSE VMin2(r * c, F.Cap + 1)
RowCard(F, l) == RowCardFrom(F, l, 1)
RowEl(l)      == VSum([i \in 1..Len(l) |-> TCNel(l[i])])

Adjacent(l) == Len(l) = 1 \/ \E i \in 1..(Len(l) - 1) : TCIsStr(l[i]) # TCIsStr(l[i + 1])
LayoutOK(F, l) == /\ RowEl(l) <= F.MaxRowEl /\ RowCard(F, l) <= F.Cap
                  /\ CASE F.Filter = "adj" -> Adjacent(l) /\ (\E i \in 1..Len(l) : TCIsStr(l[i]))
                       [] F.Filter = "num" -> \A i \in 1..Len(l) : ~TCIsStr(l[i])
                       [] OTHER -> TRUE

\* ---- which delimiters a table is written with -----------------------------------------
\* A covering design chosen by the model, not by the harness: the DCount delimiters of a table are
\* taken from the sorted sequence of TCQuantDelims at a stride coprime to its length, starting at a
\* hash of the table (so that the tables of a family spread evenly over the delimiters; the adapter
\* verifies the spread).  DCount = AllDelims gives every delimiter.
QSeq == VSortSet(TCQuantDelims)
TokCode(tok) == CASE tok = "sp" -> 1 [] tok = "dl" -> 2 [] tok = "x" -> 3 [] tok = "nul" -> 4 [] tok = "tb" -> 5 [] tok = "1" -> 6
                  [] tok = "min" -> 7 [] tok = "m1" -> 8 [] tok = "z" -> 9 [] tok = "p1" -> 10 [] tok = "max" -> 11
                  [] tok = "nan" -> 12 [] tok = "pinf" -> 13 [] tok = "ninf" -> 14 [] tok = "pz" -> 15 [] tok = "nz" -> 16
                  [] tok = "fa" -> 17 [] tok = "fb" -> 18 [] tok = "fs" -> 19 [] tok = "fl" -> 20 [] tok = "fz" -> 21
                  [] tok = "fi" -> 22 [] tok = "fd" -> 23 [] tok = "fx" -> 24 [] OTHER -> 25
KCode(k) == CASE k = "i" -> 1 [] k = "u" -> 2 [] k = "f" -> 3 [] OTHER -> 4
Mix(h, v) == (h * 31 + v + 1) % 7919
RECURSIVE FoldMix(_, _)
FoldMix(h, q) == IF q = <<>> THEN h ELSE FoldMix(Mix(h, Head(q)), Tail(q))
ElemCodes(f, e)  == IF TCIsStr(f) THEN <<40 + Len(e)>> \o [i \in 1..Len(e) |-> TokCode(e[i])] ELSE <<TokCode(e)>>
CellCodes(f, c)  == TCFlat([e \in 1..Len(c) |-> ElemCodes(f, c[e])])
RowCodes(fs, r)  == TCFlat([i \in 1..Len(fs) |-> CellCodes(fs[i], r[i])]) \o <<60>>
TableCodes(tb)   == TCFlat([i \in 1..Len(tb.fields) |-> <<KCode(tb.fields[i].k), tb.fields[i].w, TCNel(tb.fields[i]), Len(tb.fields[i].sh)>>])
                    \o <<61>> \o TCFlat([r \in 1..Len(tb.rows) |-> RowCodes(tb.fields, tb.rows[r])])
TableHash(tb)    == FoldMix(17, TableCodes(tb))
DelimsFor(F, tb) == LET n == Len(QSeq)  h == TableHash(tb)
                    IN F.DAlways \cup {QSeq[((h + 29 * j) % n) + 1] : j \in 0..(VMin2(F.DCount, n) - 1)}
ClassDelims == {44, 9, 32}                       \* ',' tab space: one delimiter per mechanism class
RunDelims(F, tb) == IF DelimRun = "plan" THEN DelimsFor(F, tb) ELSE ClassDelims

Init == /\ phase = "start" /\ fam = "none" /\ lay = <<>> /\ t = NoTable /\ dc = "none" /\ dcd = 0 /\ txt = <<>> /\ pos = 0
        /\ ri = 0 /\ fi = 0 /\ cur = <<>> /\ acc = <<>> /\ res = Err("none yet")

ChooseLayout ==
    /\ phase = "start"
    /\ \E fm \in Fams : LET F == FamDefs[fm] IN
       \E n \in 1..F.MaxFields : \E tys \in [1..n -> F.Types] : \E shs \in [1..n -> F.Shapes] :
          LET l == [i \in 1..n |-> [name |-> Names[i], k |-> TCTypes[tys[i]].k, w |-> TCTypes[tys[i]].w,
                                    sh |-> TCShapes[shs[i]]]]
          IN LayoutOK(F, l) /\ lay' = l /\ fam' = fm
    /\ phase' = "layout" /\ UNCHANGED <<t, dc, dcd, txt, pos, ri, fi, cur, acc, res>>

ChooseRows ==
    /\ phase = "layout"
    /\ LET F == FamDefs[fam] IN
       \E n \in 1..F.MaxRows :
          /\ CapPow(RowCard(F, lay), n, F.Cap) <= F.Cap
          /\ \E rows \in [1..n -> RowSet(F, lay)] : t' = [fields |-> lay, rows |-> rows]
    /\ phase' = "table" /\ UNCHANGED <<fam, lay, dc, dcd, txt, pos, ri, fi, cur, acc, res>>

\* ---- the mechanism, one action per code step ---------------------------------------
Write ==                                        \* Records::WriteRows
    /\ phase = "table"
    /\ \E c \in RunDelims(FamDefs[fam], t) :
          /\ TCDelimClass(c) \in DClasses
          /\ dcd' = c /\ dc' = TCDelimClass(c) /\ txt' = TCWriteRowsD(t, c, Writer)
    /\ pos' = 1 /\ ri' = 1 /\ fi' = 1 /\ cur' = <<>> /\ acc' = <<>>
    /\ phase' = "read" /\ UNCHANGED <<fam, lay, t, res>>

Advance(r) ==                                   \* after one field of read_text_columns
    IF ~r.ok THEN /\ phase' = "done" /\ res' = Err("RuntimeError") /\ UNCHANGED <<pos, ri, fi, cur, acc>>
    ELSE /\ pos' = r.pos
         /\ IF fi = Len(t.fields)
            THEN /\ acc' = acc \o <<cur \o <<r.val>>>> /\ cur' = <<>> /\ fi' = 1 /\ ri' = ri + 1
            ELSE /\ cur' = cur \o <<r.val>> /\ fi' = fi + 1 /\ UNCHANGED <<acc, ri>>
         /\ UNCHANGED <<phase, res>>

ReadStrField ==                                 \* Records::read_ascii_bytes
    /\ phase = "read" /\ ri <= Len(t.rows) /\ TCIsStr(t.fields[fi])
    /\ Advance(TCReadCell(t.fields[fi], txt, pos, dc, Reader))
    /\ UNCHANGED <<fam, lay, t, dc, dcd, txt>>

ScanNumField ==                                 \* Records::scan_column_values (+ fgetc)
    /\ phase = "read" /\ ri <= Len(t.rows) /\ ~TCIsStr(t.fields[fi])
    /\ Advance(TCReadCell(t.fields[fi], txt, pos, dc, Reader))
    /\ UNCHANGED <<fam, lay, t, dc, dcd, txt>>

Finish ==
    /\ phase = "read" /\ ri > Len(t.rows)
    /\ phase' = "done" /\ res' = Ok(acc)
    /\ UNCHANGED <<fam, lay, t, dc, dcd, txt, pos, ri, fi, cur, acc>>

Next == ChooseLayout \/ ChooseRows \/ Write \/ ReadStrField \/ ScanNumField \/ Finish
NextExport == ChooseLayout \/ ChooseRows        \* enumeration only (export run)
Spec == Init /\ [][Next]_vars

\* ---- properties -------------------------------------------------------------------
RoundTripped == res = Ok(t.rows)

\* the mechanism refines the property: reading what was written returns the table
MechRefines == phase = "done" => RoundTripped

\* ... which the pinned scanner does except on the named hazards.  (On a hazard it nearly
\* always fails; the exceptions are coincidences such as a lost '-' of the most negative
\* 4-byte integer, which wraps round to itself.  HazardsHit states the rule without them.)
MechRefinesModHazards == phase = "done" => (RoundTripped \/ TCHazard(t, dc) # "none")
NoMinCell == \A r \in 1..Len(t.rows) : \A i \in 1..Len(t.fields) : t.fields[i].k = "i" => "min" \notin VRange(t.rows[r][i])
HazardsHit == (phase = "done" /\ NoMinCell) => (TCHazard(t, dc) # "none" => ~RoundTripped)

\* the stepwise run and the operator form of the reader are the same function
StepsAgree == phase = "done" => res = TCReadRows(t.fields, txt, Len(t.rows), dc, Reader)

\* the scanner never moves backwards and never runs more than one character past the text
ScanSafe == phase = "read" => pos >= 1 /\ pos <= Len(txt) + 2

\* the property-level spec accepts its own reference observation and rejects a lost row
RefAccepted == phase = "table" =>
    /\ TCAccept(t, TCRefObs(t, "sfile")) /\ TCAccept(t, TCRefObs(t, "recfile"))
    /\ "rows_count" \in TCFailing(t, [TCRefObs(t, "sfile") EXCEPT !.rows = Tail(t.rows)])

\* ---- the delimiter dimension ----------------------------------------------------------
\* the catalogue: the six delimiters of the quantifier text are inside it, the percent sign, the quotes and the
\* backslash too; what continues a number (E x X I) is outside with what occurs in one
CatalogueOK == phase = "start" =>
    /\ TCListedDelims \subseteq TCQuantDelims /\ {37, 34, 39, 92, 35, 64, 126, 63, 42, 91, 123, 40, 47, 61, 95} \subseteq TCQuantDelims
    /\ TCAmbiguousCodes \cap TCDelimUniverse = TCWrittenNumCodes \cup {69, 120, 88, 73}
    /\ Cardinality(TCQuantDelims) = 76 /\ Len(QSeq) = 76
    /\ \A c \in TCQuantDelims : TCDelimClass(c) \in {"plain", "tab", "space"} /\ TCDelimGroup(c) # "ambiguous"

\* records.cpp passes the separator as an argument of "%s": the text of the file, in tokens, is the same
\* whatever character the delimiter is (checked for the delimiters of the table's plan and the percent sign)
DelimIndependent == phase = "table" =>
    \A c \in DelimsFor(FamDefs[fam], t) \cup {37} : TCWriteRowsD(t, c, "arg") = TCWriteRows(t)

\* the deviating writer (separator inside the print format) with the repaired reader: the round trip is lost
\* exactly when the delimiter is the percent sign and some number is written after a separator
FmtWriterCharacterised == phase = "done" => (RoundTripped <=> ~(dcd = 37 /\ TCHasLedNumber(t)))

\* ---- scale: the laws, and the cases whose size no family reaches ----------------------------
\* the split laws hold for whatever rows the scanner model returned (the wrong ones of the pinned scanner included)
ObsOfRes(entry) == [TCRefObs(t, entry) EXCEPT !.rows = res.val]
SplitLaws == (phase = "done" /\ IsOk(res) /\ Len(res.val) = Len(t.rows)) =>
    /\ TCRowSplitLaw(t, ObsOfRes("sfile")) /\ TCColSplitLaw(t, ObsOfRes("sfile"))
    /\ TCRowSplitLaw(t, ObsOfRes("recfile")) /\ TCColSplitLaw(t, ObsOfRes("recfile"))
WriteLaws == phase = "table" => TCWriteLaws(t)

\* A scale case is a small base table (one pattern of fields, two rows; three rotations so that the first value of
\* the file is an integer, a float and a string in turn) blown up along one axis by the adapter:
\*   rows  : the base rows repeated to n rows;                  cols : the base fields repeated to n columns;
\*   elems : the base table with every field widened to n elements;
\*   hdr   : a table whose sfile header is tuned (number of columns, lengths of the field names; with user = TRUE a
\*           few columns and a long user header entry instead) so that the line END starts `off` bytes after a
\*           multiple `blk` of a stdio block: the marker "\nEND\n" straddles the boundary in every position.
\* Sizes sit at, next to and across powers of two and block sizes; they do and do not divide them.
SField(n, k, w, sh) == [name |-> n, k |-> k, w |-> w, sh |-> sh]
SBaseFields == <<SField("a", "i", 8, <<>>), SField("b", "f", 8, <<>>), SField("c", "S", 5, <<>>), SField("d", "i", 4, <<2>>)>>
SBaseRows   == << << <<"max">>, <<"fl">>, << <<"x", "dl", "sp", "x">> >>, <<"min", "p1">> >>,
                  << <<"m1">>, <<"nan">>, << <<>> >>, <<"z", "max">> >> >>
Rot(q, j) == [i \in 1..Len(q) |-> q[((i + j - 1) % Len(q)) + 1]]
SBase(j)  == [fields |-> Rot(SBaseFields, j), rows |-> [r \in 1..2 |-> Rot(SBaseRows[r], j)]]
SDelims   == IF ScaleTier = "quick" THEN {44, 9} ELSE {44, 9, 32, 37, 124}
Around(S) == UNION {{x - 1, x, x + 1} : x \in S}
SRowsN  == IF ScaleTier = "quick" THEN {65537, 100000} ELSE Around({65536, 131072, 262144}) \cup {99991, 100000, 196608, 1000003}
SColsN  == IF ScaleTier = "quick" THEN {50, 200, 700} ELSE {50, 100, 200, 400, 700, 1000}
SElemsN == IF ScaleTier = "quick" THEN {1024, 3001} ELSE Around({512, 1024, 2048}) \cup {3001, 10000}
SBlocks == IF ScaleTier = "quick" THEN {4096, 8192, 16384} ELSE {4096, 8192, 16384, 24576, 32768, 65536}
SOffs   == (0 - 8)..8
ScaleCases ==
    {[axis |-> "rows", base |-> SBase(j), n |-> n, dcode |-> d, blk |-> 0, off |-> 0, user |-> FALSE] :
        j \in {0, 2}, n \in SRowsN, d \in SDelims} \cup
    {[axis |-> "cols", base |-> SBase(j), n |-> n, dcode |-> d, blk |-> 0, off |-> 0, user |-> FALSE] :
        j \in {0, 1, 2}, n \in SColsN, d \in SDelims} \cup
    {[axis |-> "elems", base |-> SBase(j), n |-> n, dcode |-> d, blk |-> 0, off |-> 0, user |-> FALSE] :
        j \in {0, 1}, n \in SElemsN, d \in SDelims} \cup
    {[axis |-> "hdr", base |-> SBase((b \div 4096 + o + 8) % 3), n |-> 0, dcode |-> IF (o % 2) = 0 THEN 44 ELSE 9, blk |-> b, off |-> o, user |-> u] :
        b \in SBlocks, o \in SOffs, u \in (IF ScaleTier = "quick" THEN {FALSE} ELSE BOOLEAN)} \cup
    {[axis |-> "hdr", base |-> SBase(0), n |-> 0, dcode |-> 44, blk |-> 8192, off |-> o, user |-> TRUE] : o \in {0 - 4, 0 - 1, 0, 1, 3}}

\* ---- export ------------------------------------------------------------------------
Pred(d) == [hz |-> TCHazard(t, d), rt |-> TCRoundTrips(t, d, Reader)]
Export ==
    /\ (DoExport /\ phase = "start") =>
          /\ \A fm \in Fams : PrintT(<<"FAMILY", ToJson([name |-> fm, def |-> FamDefs[fm]])>>)
          /\ \A sc \in ScaleCases : PrintT(<<"SCALE", ToJson(sc)>>)
          /\ \A c \in TCDelimUniverse : PrintT(<<"DELIM", ToJson([code |-> c, cls |-> TCDelimClass(c), grp |-> TCDelimGroup(c),
                                                                  quant |-> c \in TCQuantDelims])>>)
    /\ (DoExport /\ phase = "table") =>
          PrintT(<<"CASE", ToJson([fam |-> fam, t |-> t, delims |-> DelimsFor(FamDefs[fam], t), led |-> TCHasLedNumber(t),
                                   plain |-> Pred("plain"), tab |-> Pred("tab"), space |-> Pred("space")])>>)
=============================================================================
