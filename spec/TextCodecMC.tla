------------------------------- MODULE TextCodecMC -------------------------------
(* Exhaustive small-scope model for C04.                                          *)
(*  - ChooseLayout / ChooseRows enumerate every table of the bounded space (these *)
(*    states are exported as JSON and every one is written and read back with the *)
(*    real code, for every delimiter);                                            *)
(*  - Write / ReadStrField / ScanNumField / Finish run the character-level        *)
(*    mechanism of TextCodec.tla (records.cpp) on the table, one action per field *)
(*    read, for every delimiter class;                                            *)
(*  - MechRefines: the finished read returned the table.  The pinned scanner      *)
(*    violates it; MechRefinesModHazards / HazardsFail say that it does so        *)
(*    exactly on the named hazards, and reader = "fixed" meets MechRefines.       *)
EXTENDS TextCodec, Json

CONSTANTS Types,        \* field types (names of TCTypes)
          Shapes,       \* sub-array shapes (names of TCShapes)
          MaxFields,    \* layouts of 1..MaxFields fields
          MaxRowEl,     \* ... with at most this many elements per row
          MaxRows,      \* tables of 1..MaxRows rows
          Cap,          \* ... as long as the layout has at most Cap tables of that many rows
          Filter,       \* "any" | "adj" (a string next to a number, or a single field) | "num" (numbers only)
          IntToks, UIntToks, FltToks,   \* number tokens per kind
          Chars,        \* characters of string cells
          ExhW,         \* strings up to this width: every word; wider: the 12 patterns
          DClasses,     \* delimiter classes run through the mechanism
          Reader,       \* "pinned" | "fixed"
          DoExport      \* TRUE: print every table as JSON

VARIABLES phase, lay, t, dc, txt, pos, ri, fi, cur, acc, res
vars == <<phase, lay, t, dc, txt, pos, ri, fi, cur, acc, res>>

Names == <<"a", "b", "c", "d">>
NoTable == [fields |-> <<>>, rows |-> <<>>]

\* ---- the bounded space ------------------------------------------------------------
Words(w) == UNION {[1..n -> Chars] : n \in 0..w}
Rep(c, n) == [i \in 1..n |-> c]
Patterns(w) ==                                  \* 12 sampled words for the wide strings
    LET P == {<<>>, Rep("a", w), <<"sp">> \o Rep("a", w - 1), Rep("a", w - 1) \o <<"sp">>,
     <<"dl">> \o Rep("a", w - 1), Rep("a", w - 1) \o <<"dl">>, Rep("sp", w), Rep("dl", w),
     <<"a">>, <<"sp">>, <<"dl", "a">>, <<"a">> \o Rep("sp", w - 2) \o <<"a">>}
    IN {p \in P : Len(p) <= w}

ElemSet(f) == IF f.k = "S" THEN (IF f.w <= ExhW THEN Words(f.w) ELSE Patterns(f.w))
              ELSE IF f.k = "i" THEN IntToks ELSE IF f.k = "u" THEN UIntToks ELSE FltToks

RECURSIVE SeqProd(_)                            \* sequence of sets -> set of sequences
SeqProd(S) == IF S = <<>> THEN {<<>>} ELSE {<<x>> \o r : x \in Head(S), r \in SeqProd(Tail(S))}
CellSet(f) == SeqProd([e \in 1..TCNel(f) |-> ElemSet(f)])
RowSet(l)  == SeqProd([i \in 1..Len(l) |-> CellSet(l[i])])

RECURSIVE CapPow(_, _)                          \* b^e, saturating just above Cap (32-bit integers)
CapPow(b, e) == IF e = 0 THEN 1 ELSE LET r == CapPow(b, e - 1) IN IF r > Cap THEN r ELSE r * b
RECURSIVE RowCardFrom(_, _)
RowCardFrom(l, i) == IF i > Len(l) THEN 1
                     ELSE LET r == RowCardFrom(l, i + 1)
                              c == CapPow(Cardinality(ElemSet(l[i])), TCNel(l[i]))
                          IN IF r > Cap \/ c > Cap THEN Cap + 1 ELSE VMin2(r * c, Cap + 1)
RowCard(l) == RowCardFrom(l, 1)
RowEl(l)   == VSum([i \in 1..Len(l) |-> TCNel(l[i])])

Adjacent(l) == Len(l) = 1 \/ \E i \in 1..(Len(l) - 1) : TCIsStr(l[i]) # TCIsStr(l[i + 1])
LayoutOK(l) == /\ RowEl(l) <= MaxRowEl /\ RowCard(l) <= Cap
               /\ CASE Filter = "adj" -> Adjacent(l) /\ (\E i \in 1..Len(l) : TCIsStr(l[i]))
                    [] Filter = "num" -> \A i \in 1..Len(l) : ~TCIsStr(l[i])
                    [] OTHER -> TRUE

Init == /\ phase = "start" /\ lay = <<>> /\ t = NoTable /\ dc = "none" /\ txt = <<>> /\ pos = 0
        /\ ri = 0 /\ fi = 0 /\ cur = <<>> /\ acc = <<>> /\ res = Err("none yet")

ChooseLayout ==
    /\ phase = "start"
    /\ \E n \in 1..MaxFields : \E tys \in [1..n -> Types] : \E shs \in [1..n -> Shapes] :
          LET l == [i \in 1..n |-> [name |-> Names[i], k |-> TCTypes[tys[i]].k, w |-> TCTypes[tys[i]].w,
                                    sh |-> TCShapes[shs[i]]]]
          IN LayoutOK(l) /\ lay' = l
    /\ phase' = "layout" /\ UNCHANGED <<t, dc, txt, pos, ri, fi, cur, acc, res>>

ChooseRows ==
    /\ phase = "layout"
    /\ \E n \in 1..MaxRows :
          /\ CapPow(RowCard(lay), n) <= Cap
          /\ \E rows \in [1..n -> RowSet(lay)] : t' = [fields |-> lay, rows |-> rows]
    /\ phase' = "table" /\ UNCHANGED <<lay, dc, txt, pos, ri, fi, cur, acc, res>>

\* ---- the mechanism, one action per code step ---------------------------------------
Write ==                                        \* Records::WriteRows
    /\ phase = "table"
    /\ \E d \in DClasses : dc' = d
    /\ txt' = TCWriteRows(t) /\ pos' = 1 /\ ri' = 1 /\ fi' = 1 /\ cur' = <<>> /\ acc' = <<>>
    /\ phase' = "read" /\ UNCHANGED <<lay, t, res>>

Advance(r) ==                                   \* after one field of read_text_columns
    IF ~r.ok THEN /\ phase' = "done" /\ res' = Err("RuntimeError") /\ UNCHANGED <<pos, ri, fi, cur, acc>>
    ELSE /\ pos' = r.pos
         /\ IF fi = Len(t.fields)
            THEN /\ acc' = acc \o <<cur \o <<r.val>>>> /\ cur' = <<>> /\ fi' = 1 /\ ri' = ri + 1
            ELSE /\ cur' = cur \o <<r.val>> /\ fi' = fi + 1 /\ UNCHANGED <<acc, ri>>
         /\ UNCHANGED <<phase, res>>

ReadStrField ==                                 \* Records::read_ascii_bytes
    /\ phase = "read" /\ ri <= Len(t.rows) /\ TCIsStr(t.fields[fi])
    /\ Advance(TCReadCell(t.fields[fi], txt, pos, dc, Reader))
    /\ UNCHANGED <<lay, t, dc, txt>>

ScanNumField ==                                 \* Records::scan_column_values (+ fgetc)
    /\ phase = "read" /\ ri <= Len(t.rows) /\ ~TCIsStr(t.fields[fi])
    /\ Advance(TCReadCell(t.fields[fi], txt, pos, dc, Reader))
    /\ UNCHANGED <<lay, t, dc, txt>>

Finish ==
    /\ phase = "read" /\ ri > Len(t.rows)
    /\ phase' = "done" /\ res' = Ok(acc)
    /\ UNCHANGED <<lay, t, dc, txt, pos, ri, fi, cur, acc>>

Next == ChooseLayout \/ ChooseRows \/ Write \/ ReadStrField \/ ScanNumField \/ Finish
NextExport == ChooseLayout \/ ChooseRows        \* enumeration only (export run)
Spec == Init /\ [][Next]_vars

\* ---- properties -------------------------------------------------------------------
RoundTripped == res = Ok(t.rows)

\* the mechanism refines the property: reading what was written returns the table
MechRefines == phase = "done" => RoundTripped

\* ... which the pinned scanner does except on the named hazards, and there it never does
MechRefinesModHazards == phase = "done" => (RoundTripped \/ TCHazard(t, dc) # "none")
HazardsFail           == phase = "done" => (TCHazard(t, dc) # "none" => ~RoundTripped)

\* the stepwise run and the operator form of the reader are the same function
StepsAgree == phase = "done" => res = TCReadRows(t.fields, txt, Len(t.rows), dc, Reader)

\* the scanner never moves backwards and never runs more than one character past the text
ScanSafe == phase = "read" => pos >= 1 /\ pos <= Len(txt) + 2

\* the property-level spec accepts its own reference observation and rejects a lost row
RefAccepted == phase = "table" =>
    /\ TCAccept(t, TCRefObs(t, "sfile")) /\ TCAccept(t, TCRefObs(t, "recfile"))
    /\ "rows_count" \in TCFailing(t, [TCRefObs(t, "sfile") EXCEPT !.rows = Tail(t.rows)])

\* ---- export ------------------------------------------------------------------------
Pred(d) == [hz |-> TCHazard(t, d), rt |-> TCRoundTrips(t, d, Reader)]
Export == (DoExport /\ phase = "table") =>
    PrintT(<<"CASE", ToJson([t |-> t, plain |-> Pred("plain"), tab |-> Pred("tab"), space |-> Pred("space")])>>)
=============================================================================
