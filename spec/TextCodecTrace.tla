------------------------------- MODULE TextCodecTrace -------------------------------
(* Trace validation for C04: every recorded write/read cycle of the real code is    *)
(* judged by the property-level spec of TextCodec.tla.  One ndjson line per record: *)
(*   {"id": k, "dcode": <character code of the delimiter>, "t": <table as written>, *)
(*    "obs": [<observation of one cycle: entry point, byte order, result>, ...]}    *)
(* The delimiter is classified here (TCDelimClass / TCDelimGroup of TextCodec.tla): *)
(* a record whose delimiter is outside the quantifier of the statement (inherently  *)
(* ambiguous, TCAmbiguousCodes, or not a delimiter of the universe) demands nothing.*)
(* A *scale record* (a table too big to write out: field "parts" present) carries   *)
(*   {"id", "dcode", "axis", "nw", "no", "hw", "ho", "err",                          *)
(*    "parts": [{"t": <small table>, "obs": <observation restricted to it>}, ...]}   *)
(* and is judged through the split laws of TextCodec.tla: the count clause of the    *)
(* axis ("0:<clause>") and the clauses of every distinct part ("<k>:<clause>").      *)
(* The table and the observed rows are abstracted by the same byte -> token map, so *)
(* the judgement is token equality.  A rejected record is printed with the failing  *)
(* clauses ("<k>:<clause>" for observation k) and with the structural class of the  *)
(* table ("hz:<first named hazard of the pinned scanner>", or "hz:none") and of the *)
(* delimiter ("dl:<class>/<group>").                                                *)
EXTENDS TextCodec, Json, IOUtils

VARIABLES blk, tid
Traces == ndJsonDeserialize(IOEnv.TRACE_FILE)
NT == Len(Traces)
BlockSize == 256
NBlocks == (NT + BlockSize - 1) \div BlockSize

Init == blk = 0 /\ tid = 0
PickBlock == blk = 0 /\ tid = 0 /\ \E b \in 1..NBlocks : blk' = b /\ tid' = 0
PickTrace == blk > 0 /\ tid = 0
             /\ \E t \in ((blk - 1) * BlockSize + 1)..VMin2(blk * BlockSize, NT) : tid' = t /\ blk' = blk
Next == PickBlock \/ PickTrace

IsScale(r) == "parts" \in DOMAIN r
FailingRec(r) ==
    IF IsScale(r)
    THEN {"0:" \o c : c \in TCScaleFrameFailing(r)} \cup
         UNION {{ToString(k) \o ":" \o c : c \in TCFailing(r.parts[k].t, r.parts[k].obs)} : k \in DOMAIN r.parts}
    ELSE UNION {{ToString(k) \o ":" \o c : c \in TCFailing(r.t, r.obs[k])} : k \in DOMAIN r.obs}

Check == tid > 0 =>
    LET r == Traces[tid]
    IN r.dcode \notin TCQuantDelims \/
       LET f  == FailingRec(r)
           dc == TCDelimClass(r.dcode)
       IN f = {} \/ PrintT(<<"REJECT", ToJson([id |-> r.id, failing |-> f \cup {"hz:" \o (IF IsScale(r) THEN "none" ELSE TCHazard(r.t, dc)),
                                                                                "dl:" \o dc \o "/" \o TCDelimGroup(r.dcode)}])>>)
=============================================================================
