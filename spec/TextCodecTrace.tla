------------------------------- MODULE TextCodecTrace -------------------------------
(* Trace validation for C04: every recorded write/read cycle of the real code is    *)
(* judged by the property-level spec of TextCodec.tla.  One ndjson line per record: *)
(*   {"id": k, "dc": "plain"|"tab"|"space", "t": <table as written>,                *)
(*    "obs": [<observation of one cycle: entry point, byte order, result>, ...]}    *)
(* The table and the observed rows are abstracted by the same byte -> token map, so *)
(* the judgement is token equality.  A rejected record is printed with the failing  *)
(* clauses ("<k>:<clause>" for observation k) and with the structural class of the  *)
(* table ("hz:<first named hazard of the pinned scanner>", or "hz:none").           *)
EXTENDS TextCodec, Json, IOUtils

VARIABLES blk, tid
Traces == ndJsonDeserialize(IOEnv.TRACE_FILE)
NT == Len(Traces)
BlockSize == 256
NBlocks == (NT + BlockSize - 1) \div BlockSize

Init == blk = 0 /\ tid = 0
PickBlock == blk = 0 /\ tid = 0 /\ \E b \in 1..NBlocks : blk' = b /\ tid' = 0
PickTrace == blk > 0 /\ tid = 0
             /\ \E t \in ((blk - 1) * BlockSize + 1)..VMin2(blk * BlockSize, NT) : tid' = t /\ blk' = blk
Next == PickBlock \/ PickTrace

FailingRec(r) ==
    UNION {{ToString(k) \o ":" \o c : c \in TCFailing(r.t, r.obs[k])} : k \in DOMAIN r.obs}

Check == tid > 0 =>
    LET r == Traces[tid]  f == FailingRec(r)
    IN f = {} \/ PrintT(<<"REJECT", ToJson([id |-> r.id, failing |-> f \cup {"hz:" \o TCHazard(r.t, r.dc)}])>>)
=============================================================================
