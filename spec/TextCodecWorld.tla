------------------------------- MODULE TextCodecWorld -------------------------------
(* World machine for C04 (class W): two record files live in ONE process and the    *)
(* calls on them are interleaved.  Property level (TextCodec.tla, section WORLD):    *)
(* what a read of file f returns is decided by the calls on f alone.                  *)
(*  - every file runs a script (a fixed life cycle of calls); a session is a merge   *)
(*    of the scripts of the two files; TLC enumerates EVERY merge, for every pair of *)
(*    scripts, every pair of entry points and every twin design of the two tables    *)
(*    (tables designed to collide: the same header text, the same names with other   *)
(*    row counts, the same names and row size with other column types);              *)
(*  - mechanism: every stream buffers what it writes / reads in a stdio buffer and   *)
(*    the file receives the buffer when the stream is closed.  Buffering = "own"     *)
(*    (records.cpp: every FILE has its own buffer) meets WorldIndependent;           *)
(*    Buffering = "shared" (one buffer for every stream of the process) is the       *)
(*    deviating mechanism and violates it (self-test of the adapter);                *)
(*  - the caller owns what a read returned: "scr" scribbles over the last result of  *)
(*    the file before it is read again.  Memo = "none" (the code: every read goes to *)
(*    the file) meets WorldIndependent; Memo = "layout" (read results memoised under *)
(*    the header text / column layout, which twin files share) and Memo = "path"     *)
(*    (memoised per file, but handing out the memo's own storage) violate it;        *)
(*  - the finished sessions are exported (SESSION records) and executed against the  *)
(*    real code, each in one fresh process; TextCodecWorldTrace.tla judges them.     *)
EXTENDS TextCodec, Json

CONSTANTS Buffering,    \* "own" | "shared"
          Memo,         \* "none" | "layout" | "path": read results memoised (deviating mechanisms)
          WTier,        \* "quick": every merge with 1 of the 12 (entry points, twin design) combinations, spread by
                        \*          a hash of the merge | "thorough": every merge with every combination
          DoExport

VARIABLES kinds, ent, twin, pc, hist, strm, disk, mem, wr, lastobs, memo
vars == <<kinds, ent, twin, pc, hist, strm, disk, mem, wr, lastobs, memo>>

Files == {1, 2}
Scripts == [wc |-> <<"ow", "wr", "wr", "cl", "rall">>,          \* write in pieces, close, read back in one call
            rc |-> <<"wall", "or", "rd", "scr", "rd", "cl">>]   \* one-shot write, then an open reader that reads, has its
                                                                \* result scribbled over by the caller, and reads again
KindPairs == {<<"wc", "wc">>, <<"wc", "rc">>, <<"rc", "rc">>}
Entries == {"sfile", "recfile"}
Twins == <<"same", "count", "types">>

\* ---- the two tables ------------------------------------------------------------------
WField(n, k, w) == [name |-> n, k |-> k, w |-> w, sh |-> <<>>]
FieldsA == <<WField("a", "i", 8), WField("b", "f", 8), WField("c", "S", 5)>>
ChunksA == << << << <<"max">>, <<"fl">>, << <<"x", "dl", "sp", "x">> >> >>,
                 << <<"m1">>, <<"nan">>, << <<>> >> >> >>,
              << << <<"z">>, <<"fa">>, << <<"q">> >> >>,
                 << <<"min">>, <<"ninf">>, << <<"x", "x", "x", "x", "x">> >> >> >> >>
\* the twin of file 2: "same"  - the same fields and the same number of rows (byte-identical sfile header), other values;
\*                     "count" - the same fields, another number of rows;
\*                     "types" - the same names and the same row size, other column types
FieldsB(tw) == IF tw = "types" THEN <<WField("a", "f", 8), WField("b", "u", 8), WField("c", "S", 5)>> ELSE FieldsA
ChunksB(tw) ==
    IF tw = "types"
    THEN << << << <<"fb">>, <<"max">>, << <<"y">> >> >> >>,
            << << <<"pinf">>, <<"z">>, << <<"dl", "y">> >> >>,
               << <<"nz">>, <<"p1">>, << <<"sp", "y", "sp">> >> >> >> >>
    ELSE IF tw = "count"
    THEN << << << <<"p1">>, <<"fb">>, << <<"y", "y">> >> >> >>,
            << << <<"min">>, <<"pz">>, << <<"dl">> >> >>,
               << <<"z">>, <<"fl">>, << <<"y", "sp", "y">> >> >> >> >>
    ELSE << << << <<"min">>, <<"fb">>, << <<"y">> >> >>,
               << <<"p1">>, <<"pinf">>, << <<"y", "dl", "y">> >> >> >>,
            << << <<"max">>, <<"nz">>, << <<"sp", "y">> >> >>,
               << <<"m1">>, <<"fx">>, << <<>> >> >> >> >>
FileTab(f, tw) == IF f = 1 THEN [fields |-> FieldsA, chunks |-> ChunksA] ELSE [fields |-> FieldsB(tw), chunks |-> ChunksB(tw)]
Chunk(f, c) == FileTab(f, twin).chunks[c]

\* ---- the mechanism ---------------------------------------------------------------------
BufOf(f) == IF Buffering = "shared" THEN 0 ELSE f
Junk == << <<"junk">>, <<"junk">>, << <<"junk">> >> >>          \* a row that no table holds
Overwrite(m, p, rows) ==                        \* the buffer memory m with rows stored from position p + 1 on
    [i \in 1..VMax2(Len(m), p + Len(rows)) |-> IF i > p /\ i <= p + Len(rows) THEN rows[i - p] ELSE IF i <= Len(m) THEN m[i] ELSE Junk]

MemoKey(f) == IF Memo = "layout" THEN (IF FileTab(f, twin).fields = FieldsA THEN 1 ELSE 2) ELSE f
MemoKeys == {1, 2}
Absent == <<"absent">>

Init == /\ kinds \in KindPairs /\ ent \in [Files -> Entries] /\ twin \in VRange(Twins)
        /\ pc = [f \in Files |-> 1] /\ hist = <<>>
        /\ strm = [f \in Files |-> [mode |-> "closed", n |-> 0]]
        /\ disk = [f \in Files |-> <<>>] /\ mem = [b \in {0, 1, 2} |-> <<>>] /\ wr = [f \in Files |-> <<>>]
        /\ lastobs = [f |-> 0, rows |-> <<>>] /\ memo = [k \in MemoKeys |-> <<"absent">>]

OpOf(f) == Scripts[kinds[f]][pc[f]]
NWritten(f) == Cardinality({i \in 1..(pc[f] - 1) : Scripts[kinds[f]][i] = "wr"})

Do(f, op) ==
    LET b == BufOf(f) IN
    CASE op = "ow" ->      \* fopen(w): the file is truncated, nothing is buffered
           /\ strm' = [strm EXCEPT ![f] = [mode |-> "w", n |-> 0]] /\ disk' = [disk EXCEPT ![f] = <<>>]
           /\ wr' = [wr EXCEPT ![f] = <<>>] /\ UNCHANGED <<mem, lastobs, memo>>
      [] op = "wr" ->      \* the rows go to the stream's buffer
           LET rows == Chunk(f, NWritten(f) + 1) IN
           /\ mem' = [mem EXCEPT ![b] = Overwrite(mem[b], strm[f].n, rows)]
           /\ strm' = [strm EXCEPT ![f].n = @ + Len(rows)]
           /\ wr' = [wr EXCEPT ![f] = @ \o rows] /\ UNCHANGED <<disk, lastobs, memo>>
      [] op = "cl" ->      \* fclose: what the buffer holds NOW goes to the file
           /\ disk' = [disk EXCEPT ![f] = IF strm[f].mode = "w" THEN @ \o SubSeq(mem[b], 1, strm[f].n) ELSE @]
           /\ strm' = [strm EXCEPT ![f] = [mode |-> "closed", n |-> 0]] /\ UNCHANGED <<mem, wr, lastobs, memo>>
      [] op = "wall" ->    \* open, write everything, close
           LET rows == TCFlat(FileTab(f, twin).chunks) IN
           /\ mem' = [mem EXCEPT ![b] = Overwrite(mem[b], 0, rows)]
           /\ disk' = [disk EXCEPT ![f] = rows] /\ wr' = [wr EXCEPT ![f] = rows] /\ UNCHANGED <<strm, lastobs, memo>>
      [] op = "or" ->
           /\ strm' = [strm EXCEPT ![f] = [mode |-> "r", n |-> 0]] /\ UNCHANGED <<disk, mem, wr, lastobs, memo>>
      [] op \in {"rd", "rall"} ->   \* the file is read through the buffer
           LET m2 == Overwrite(mem[b], 0, disk[f])
               k  == MemoKey(f) IN
           IF Memo # "none" /\ memo[k] # Absent
           THEN /\ lastobs' = [f |-> f, rows |-> memo[k]] /\ UNCHANGED <<strm, disk, wr, mem, memo>>
           ELSE /\ mem' = [mem EXCEPT ![b] = m2]
                /\ lastobs' = [f |-> f, rows |-> SubSeq(m2, 1, Len(disk[f]))]
                /\ memo' = IF Memo = "none" THEN memo ELSE [memo EXCEPT ![k] = SubSeq(m2, 1, Len(disk[f]))]
                /\ UNCHANGED <<strm, disk, wr>>
      [] op = "scr" ->     \* the caller overwrites the rows it was handed; a memo that handed out its own storage is hit
           /\ memo' = IF Memo = "none" \/ memo[MemoKey(f)] = Absent THEN memo
                      ELSE [memo EXCEPT ![MemoKey(f)] = [i \in 1..Len(@) |-> Junk]]
           /\ UNCHANGED <<strm, disk, wr, mem, lastobs>>

Step(f) == /\ pc[f] <= Len(Scripts[kinds[f]])
           /\ Do(f, OpOf(f))
           /\ hist' = Append(hist, [f |-> f, op |-> OpOf(f)])
           /\ pc' = [pc EXCEPT ![f] = @ + 1]
           /\ UNCHANGED <<kinds, ent, twin>>
Next == \E f \in Files : Step(f)
Spec == Init /\ [][Next]_vars

Done == \A f \in Files : pc[f] > Len(Scripts[kinds[f]])

\* ---- properties --------------------------------------------------------------------------
\* every read returned what was written to ITS file (= what it returns in a world with no other file)
WorldIndependent == lastobs.f # 0 => lastobs.rows = wr[lastobs.f]
\* a closed file holds what was written to it
DiskOK == \A f \in Files : strm[f].mode = "closed" => disk[f] = wr[f]

\* the session record of a finished behaviour with the observations a conforming implementation gives; the
\* property-level operator of TextCodec.tla accepts it, and rejects it when one read returns the other file's rows
RefFiles == [f \in 1..2 |-> FileTab(f, twin)]
RefObs(i) == IF hist[i].op \in TCWReadOps
             THEN TCRefObs([fields |-> RefFiles[hist[i].f].fields, rows |-> TCFlat(RefFiles[hist[i].f].chunks)], ent[hist[i].f])
             ELSE [err |-> "none"]
RefSession == [files |-> RefFiles, steps |-> hist, obs |-> [i \in 1..Len(hist) |-> RefObs(i)]]
LastRead == CHOOSE i \in 1..Len(hist) : hist[i].op \in TCWReadOps /\ \A j \in (i + 1)..Len(hist) : hist[j].op \notin TCWReadOps
Crossed == LET i == LastRead  g == 3 - hist[i].f IN
           [RefSession EXCEPT !.obs[i].rows = TCFlat(RefFiles[g].chunks)]
RefSessionAccepted == Done => /\ TCWSessionFailing(RefSession) = {}
                              /\ TCWSessionFailing(Crossed) # {}
                              /\ TCWSessionFailing([RefSession EXCEPT !.obs[1].err = "IOError"]) = {"1:step_error"}

\* ---- export ----------------------------------------------------------------------------------
RECURSIVE WHash(_)
WHash(h) == IF h = <<>> THEN 17 ELSE (WHash(SubSeq(h, 1, Len(h) - 1)) * 31 + h[Len(h)].f * 7 + 1) % 7919
EntIdx == (IF ent[1] = "sfile" THEN 0 ELSE 2) + (IF ent[2] = "sfile" THEN 0 ELSE 1)
TwinIdx == CHOOSE i \in 1..3 : Twins[i] = twin
Combo == EntIdx * 3 + (TwinIdx - 1)                                     \* 0..11
Selected == WTier = "thorough" \/ ((WHash(hist) + Combo) % 12) = 0
Export == (DoExport /\ Done /\ Selected) =>
    PrintT(<<"SESSION", ToJson([kinds |-> kinds, ent |-> <<ent[1], ent[2]>>, twin |-> twin,
                                dcode |-> IF (WHash(hist) % 2) = 0 THEN 44 ELSE 9,
                                files |-> RefFiles, steps |-> hist])>>)
=============================================================================
