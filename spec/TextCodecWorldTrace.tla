------------------------------- MODULE TextCodecWorldTrace -------------------------------
(* Trace validation for the world sessions of C04 (TextCodecWorld.tla): one ndjson line per  *)
(* session executed against the real code in one process:                                   *)
(*   {"id", "dcode", "files": [{"fields", "chunks": [rows, ...]}, ...],                     *)
(*    "steps": [{"f", "op"}, ...], "obs": [<observation of step i>, ...]}                    *)
(* A read step carries the observation record of TextCodecTrace (entry, order, err, fields, *)
(* rows, hdr), any other step {"err": "none" | <exception name>}.  Every read is judged by  *)
(* TCFailing against the rows written to ITS OWN file by the steps before it (TCWWritten of *)
(* TextCodec.tla, computed here from the steps - not by the harness).                       *)
EXTENDS TextCodec, Json, IOUtils

VARIABLES blk, tid
Traces == ndJsonDeserialize(IOEnv.TRACE_FILE)
NT == Len(Traces)
BlockSize == 64
NBlocks == (NT + BlockSize - 1) \div BlockSize

Init == blk = 0 /\ tid = 0
PickBlock == blk = 0 /\ tid = 0 /\ \E b \in 1..NBlocks : blk' = b /\ tid' = 0
PickTrace == blk > 0 /\ tid = 0
             /\ \E t \in ((blk - 1) * BlockSize + 1)..VMin2(blk * BlockSize, NT) : tid' = t /\ blk' = blk
Next == PickBlock \/ PickTrace

Check == tid > 0 =>
    LET r == Traces[tid]
    IN r.dcode \notin TCQuantDelims \/
       LET f == TCWSessionFailing(r)
       IN f = {} \/ PrintT(<<"REJECT", ToJson([id |-> r.id, failing |-> f \cup {"dl:" \o TCDelimClass(r.dcode) \o "/" \o TCDelimGroup(r.dcode)}])>>)
=============================================================================
