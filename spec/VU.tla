------------------------------- MODULE VU -------------------------------
(* Shared definitions for the esutil specification: sequence helpers, result     *)
(* records, exact rationals <<num, den>> (den > 0, normalised).                    *)
(* All operators are prefixed to avoid clashes with the CommunityModules.         *)
EXTENDS Integers, Sequences, FiniteSets, TLC

\* ---- call results: never raw values, always records --------------------------
Ok(v)   == [err |-> "none", val |-> v]
Err(e)  == [err |-> e, val |-> <<>>]
IsOk(r) == r.err = "none"

\* ---- integers ------------------------------------------------------------------
VAbs(x)    == IF x < 0 THEN -x ELSE x
VMin2(a,b) == IF a <= b THEN a ELSE b
VMax2(a,b) == IF a >= b THEN a ELSE b
VClamp(x, lo, hi) == IF x < lo THEN lo ELSE IF x > hi THEN hi ELSE x
\* floor division for either sign of a, positive b  (TLC's \div already floors)
VFloorDiv(a, b) == a \div b

RECURSIVE VGcd(_, _)
VGcd(a, b) == IF b = 0 THEN VAbs(a) ELSE VGcd(b, a % b)

\* ---- sequences -----------------------------------------------------------------
VRange(s) == {s[i] : i \in DOMAIN s}

RECURSIVE VSum(_)
VSum(s) == IF s = <<>> THEN 0 ELSE Head(s) + VSum(Tail(s))

VSumF(f(_), S) == LET RECURSIVE go(_)
                      go(T) == IF T = {} THEN 0
                               ELSE LET x == CHOOSE y \in T : TRUE IN f(x) + go(T \ {x})
                  IN go(S)

VSetMin(S) == CHOOSE x \in S : \A y \in S : x <= y
VSetMax(S) == CHOOSE x \in S : \A y \in S : x >= y
VSeqMin(s) == VSetMin(VRange(s))
VSeqMax(s) == VSetMax(VRange(s))

\* the sequence a, a+st, ... < b   (st > 0)
RECURSIVE VArange(_, _, _)
VArange(a, b, st) == IF a >= b THEN <<>> ELSE <<a>> \o VArange(a + st, b, st)

VIsPrefix(s, t) == Len(s) <= Len(t) /\ \A i \in 1..Len(s) : s[i] = t[i]

\* ascending sequence of the elements of a finite set of integers
RECURSIVE VSortSet(_)
VSortSet(S) == IF S = {} THEN <<>> ELSE LET m == VSetMin(S) IN <<m>> \o VSortSet(S \ {m})

\* the 1-based positions of s ordered by (s[i], i): a stable argsort
VStableArgsort(s) ==
    LET Before(i, j) == s[i] < s[j] \/ (s[i] = s[j] /\ i < j)
        RECURSIVE go(_)
        go(P) == IF P = {} THEN <<>>
                 ELSE LET m == CHOOSE i \in P : \A j \in P \ {i} : Before(i, j)
                      IN <<m>> \o go(P \ {m})
    IN go(DOMAIN s)

VSeqOfFn(f, n) == [i \in 1..n |-> f[i]]

\* ---- exact rationals -----------------------------------------------------------
RNorm(n, d) == LET g == VGcd(n, d)
                   s == IF d < 0 THEN -1 ELSE 1
               IN IF g = 0 THEN <<0, 1>> ELSE <<s * (n \div g), s * (d \div g)>>
RInt(k)    == <<k, 1>>
RAdd(a, b) == RNorm(a[1] * b[2] + b[1] * a[2], a[2] * b[2])
RSub(a, b) == RNorm(a[1] * b[2] - b[1] * a[2], a[2] * b[2])
RMul(a, b) == RNorm(a[1] * b[1], a[2] * b[2])
RDiv(a, b) == RNorm(a[1] * b[2], a[2] * b[1])
RNeg(a)    == <<-a[1], a[2]>>
RLt(a, b)  == a[1] * b[2] < b[1] * a[2]
RLe(a, b)  == a[1] * b[2] <= b[1] * a[2]
REq(a, b)  == a[1] * b[2] = b[1] * a[2]
RFloor(a)  == a[1] \div a[2]
RIsInt(a)  == a[1] % a[2] = 0
RSq(a)     == RMul(a, a)

RECURSIVE RSum(_)
RSum(s) == IF s = <<>> THEN <<0, 1>> ELSE RAdd(Head(s), RSum(Tail(s)))
=============================================================================
