------------------------------- MODULE Wcs -------------------------------
(* Property-level specification of esutil.wcsutil.WCS (C10).                      *)
(*                                                                                *)
(* 1. World(h, pix, distort): the FITS-WCS pipeline in front of the deprojection  *)
(*    - offset from the reference pixel, CD matrix, distortion polynomial in the  *)
(*    convention's order (TPV: CD then PV polynomial with the registered PVi_j -> *)
(*    monomial table; SIP: polynomial on the pixel offsets then CD) - over exact  *)
(*    rationals.  Everything is expressed in units of the pixel scale u (the      *)
(*    harness instantiates u = 2^-10 .. 2^-14 degree): h.cd is an integer matrix, *)
(*    a PV coefficient of degree n stands for the header value val * u^(1-n), SIP *)
(*    coefficients are in pixel units as in the convention, World is in units u.  *)
(*    Two (header, pixel) pairs with equal World (and equal CRVAL, scale) are     *)
(*    observationally equivalent; every class contains the pure-TAN               *)
(*    representative  (CD = identity, CRPIX = 0, pixel = World).                  *)
(* 2. Exact anchors of the gnomonic deprojection and the native->celestial        *)
(*    rotation on the great-circle lattice (integer degrees, classical angles).   *)
(* 3. Acceptance clauses for recorded observations of the real code (Failing...).    *)
(* 4. The call-history machine: every result equals F(call, k), whatever preceded. *)
EXTENDS VU

WZero == <<0, 1>>
WOne  == <<1, 1>>
RECURSIVE WPow(_, _)
WPow(a, n) == IF n = 0 THEN WOne ELSE RMul(a, WPow(a, n - 1))

\* exact square root of a non-negative rational when it is rational (radial PV terms)
WIsSq(k)    == \E r \in 0..k : r * r = k
WSqrt(k)    == CHOOSE r \in 0..k : r * r = k
WHasRoot(a) == a[1] >= 0 /\ WIsSq(a[1]) /\ WIsSq(a[2])
WRoot(a)    == <<WSqrt(a[1]), WSqrt(a[2])>>

\* ---------------------------------------------------------------------------------
\* 1. headers and World
\*
\* h = [proj    : "TAN" | "TPV" | "TANPV" | "SIP"      (TANPV: CTYPE -TAN carrying PV keys, old scamp)
\*      crpix   : <<Int, Int>>,   cd : <<<<Int,Int>>, <<Int,Int>>>>   (rows),
\*      co      : Seq([ax : 1..2, j : Nat, p : Nat, q : Nat, val : Rat])  coefficients that differ from
\*                the convention's defaults (PV: index j;  SIP: exponents p, q),
\*      invkeys : BOOLEAN,        (SIP: the optional AP_ORDER/BP_ORDER keywords are present)
\*      ord     : <<Nat, Nat>>,   (SIP: the declared A_ORDER, B_ORDER - independent of each other, each at least the
\*                                 degree of every coefficient of its axis;  <<0, 0>> otherwise)
\*      iord    : <<Nat, Nat>>,   (SIP with invkeys: the declared AP_ORDER, BP_ORDER, independent as well)
\*      pvsets  : <<Str, Str>> ]  (PV: which PVi_j keywords axis i writes besides PVi_1 and its chosen coefficients:
\*                                 "all" | "deg2" | "deg1" | "one" - the two axes need not carry the same set)
\* The declared orders and the set of explicitly written default-valued keywords are *representation*: World does
\* not depend on them, so headers that differ only there are observationally equivalent (same class).

\* the registered TPV table: PV1_j multiplies xi^e1 * eta^e2; PV2_j the same with xi, eta exchanged;
\* j = 3, 11 are the radial terms r, r^3  (r = sqrt(xi^2 + eta^2))
PVIndices == <<0, 1, 2, 3, 4, 5, 6, 7, 8, 9, 10, 11>>
PVRadial  == {3, 11}
PVDeg(j)  == IF j = 0 THEN 0 ELSE IF j <= 3 THEN 1 ELSE IF j <= 6 THEN 2 ELSE 3
PV1Exp(j) == CASE j = 0  -> <<0, 0>> [] j = 1 -> <<1, 0>> [] j = 2 -> <<0, 1>>
               [] j = 4  -> <<2, 0>> [] j = 5 -> <<1, 1>> [] j = 6 -> <<0, 2>>
               [] j = 7  -> <<3, 0>> [] j = 8 -> <<2, 1>> [] j = 9 -> <<1, 2>>
               [] j = 10 -> <<0, 3>> [] OTHER -> <<0, 0>>
\* what wcsutil supports ("up to the supported order"): no radial terms
PVSupported == {0, 1, 2, 4, 5, 6, 7, 8, 9, 10}

HasCoef(h, ax, j, p, q) == \E k \in DOMAIN h.co : h.co[k].ax = ax /\ h.co[k].j = j /\ h.co[k].p = p /\ h.co[k].q = q
CoefOr(h, ax, j, p, q, dflt) ==
    IF HasCoef(h, ax, j, p, q)
    THEN h.co[CHOOSE k \in DOMAIN h.co : h.co[k].ax = ax /\ h.co[k].j = j /\ h.co[k].p = p /\ h.co[k].q = q].val
    ELSE dflt

Offset(h, pix) == <<RSub(pix[1], RInt(h.crpix[1])), RSub(pix[2], RInt(h.crpix[2]))>>
Lin(M, v) == <<RAdd(RMul(RInt(M[1][1]), v[1]), RMul(RInt(M[1][2]), v[2])),
               RAdd(RMul(RInt(M[2][1]), v[1]), RMul(RInt(M[2][2]), v[2]))>>

RadiusSq(xi, eta) == RAdd(RSq(xi), RSq(eta))
PVTerm(ax, j, xi, eta) ==
    IF j \in PVRadial THEN WPow(WRoot(RadiusSq(xi, eta)), PVDeg(j))
    ELSE LET e == PV1Exp(j)
         IN IF ax = 1 THEN RMul(WPow(xi, e[1]), WPow(eta, e[2]))
                      ELSE RMul(WPow(eta, e[1]), WPow(xi, e[2]))
\* FITS defaults: PVi_1 = 1, every other PVi_j = 0
PVPoly(h, ax, xi, eta) ==
    RSum([k \in 1..Len(PVIndices) |->
            LET j == PVIndices[k]
                c == CoefOr(h, ax, j, 0, 0, IF j = 1 THEN WOne ELSE WZero)
            IN IF c = WZero THEN WZero ELSE RMul(c, PVTerm(ax, j, xi, eta))])
\* World is rational iff no radial coefficient is used or the radius is rational
PVRational(h, xi, eta) ==
    (\E k \in DOMAIN h.co : h.co[k].j \in PVRadial /\ h.co[k].val # WZero) => WHasRoot(RadiusSq(xi, eta))

SIPPoly(h, ax, x, y) ==
    RSum([k \in DOMAIN h.co |->
            IF h.co[k].ax = ax THEN RMul(h.co[k].val, RMul(WPow(x, h.co[k].p), WPow(y, h.co[k].q))) ELSE WZero])

IsPV(h) == h.proj \in {"TPV", "TANPV"}

\* intermediate world coordinates (xi, eta) in units of the pixel scale
World(h, pix, distort) ==
    LET d == Offset(h, pix) IN
    IF h.proj = "TAN" \/ ~distort THEN Lin(h.cd, d)
    ELSE IF IsPV(h) THEN LET w == Lin(h.cd, d) IN <<PVPoly(h, 1, w[1], w[2]), PVPoly(h, 2, w[1], w[2])>>
    ELSE Lin(h.cd, <<RAdd(d[1], SIPPoly(h, 1, d[1], d[2])), RAdd(d[2], SIPPoly(h, 2, d[1], d[2]))>>)

IdentityCD == <<<<1, 0>>, <<0, 1>>>>
TanRepHeader == [proj |-> "TAN", crpix |-> <<0, 0>>, cd |-> IdentityCD, co |-> <<>>, invkeys |-> TRUE,
                 ord |-> <<0, 0>>, iord |-> <<0, 0>>, pvsets |-> <<"all", "all">>]
\* a well-formed header declares orders that cover its coefficients
OrdersCover(h) == h.proj = "SIP" => \A k \in DOMAIN h.co : h.co[k].p + h.co[k].q <= h.ord[h.co[k].ax]
PVSetKeys(s) == CASE s = "all" -> {0, 1, 2, 4, 5, 6, 7, 8, 9, 10} [] s = "deg2" -> {0, 1, 2, 4, 5, 6}
                  [] s = "deg1" -> {0, 1, 2} [] s = "one" -> {1}
\* the pure-TAN member of the class of (h, pix): World(TanRepHeader, TanRepPix(..), _) = World(h, pix, distort)
TanRepPix(h, pix, distort) == World(h, pix, distort)
SameClass(h1, p1, d1, h2, p2, d2) == World(h1, p1, d1) = World(h2, p2, d2)

\* the reference pixel maps to CRVAL exactly when its World vanishes (a PV constant term moves it)
RefPixAtOrigin(h) == World(h, <<RInt(h.crpix[1]), RInt(h.crpix[2])>>, TRUE) = <<WZero, WZero>>

\* ---------------------------------------------------------------------------------
\* 2. exact sky anchors.  Angles in integer degrees; a longitude/latitude may carry a symbolic
\*    offset b*eps (|b*eps| < 1/2 degree, eps instantiated by the harness): pairs <<a, b>>, ordered
\*    lexicographically.
LexLt(x, y) == x[1] < y[1] \/ (x[1] = y[1] /\ x[2] < y[2])
NormLon(x) ==                                   \* into [0, 360)
    LET a == x[1] % 360                         \* TLC: result in 0..359
        y == <<a, x[2]>>
    IN IF LexLt(y, <<0, 0>>) THEN <<a + 360, x[2]>> ELSE y
IsPoleLat(y) == y \in {<<90, 0>>, <<-90, 0>>}

\* the great circle through the poles containing the meridian a0, parametrised by t degrees from
\* (a0, 0) towards the north pole
MeridianPoint(a0, t) ==
    LET tt == t % 360 IN
    IF tt <= 90 THEN <<a0 % 360, tt>>
    ELSE IF tt < 270 THEN <<(a0 + 180) % 360, 180 - tt>>
    ELSE <<a0 % 360, tt - 360>>

\* gnomonic radial function: a World radius R with (R * pi/180)^2 = TanSq(theta) lies theta degrees
\* from the reference point
TanSq(theta) == CASE theta = 30 -> <<1, 3>> [] theta = 45 -> <<1, 1>> [] theta = 60 -> <<3, 1>>
Thetas == {30, 45, 60}
DirVec(dir) == CASE dir = "E" -> <<1, 0>> [] dir = "W" -> <<-1, 0>> [] dir = "N" -> <<0, 1>> [] dir = "S" -> <<0, -1>>
Dirs == {"E", "W", "N", "S"}

\* +eta is north, +xi is east (longitude increases).  E/W anchors are lattice points only from an
\* equatorial or polar reference point.  From a pole "north"/"south" continue the meridian a0 across
\* it (LONPOLE = 180, the continuous limit and the constructor's documented default).
AnchorDefined(crval, dir) == dir \in {"N", "S"} \/ crval[2] \in {0, 90, -90}
AnchorMain(crval, dir, theta) ==
    LET a0 == crval[1]  d0 == crval[2] IN
    IF dir = "N" THEN MeridianPoint(a0, d0 + theta)
    ELSE IF dir = "S" THEN MeridianPoint(a0, d0 - theta + 360)
    ELSE LET s == IF dir = "E" THEN 1 ELSE -1 IN
         IF d0 = 0 THEN <<(a0 + s * theta + 360) % 360, 0>>
         ELSE <<(a0 + s * 90 + 360) % 360, IF d0 > 0 THEN 90 - theta ELSE theta - 90>>
\* with CRVAL2 = +90 exactly the FITS default LONPOLE is 0, not 180 (Paper II): the statement does not
\* say which applies, so the point on the opposite meridian is allowed as well (DESIGN 4.3)
AnchorAllowed(crval, dir, theta) ==
    LET m == AnchorMain(crval, dir, theta) IN
    IF crval[2] = 90 THEN {m, <<(m[1] + 180) % 360, m[2]>>} ELSE {m}

\* ---------------------------------------------------------------------------------
\* 3. acceptance of recorded observations.  Real-valued observables are projected by the harness
\*    onto the exact expectation (lattice value when within the tolerance the property states:
\*    1e-9 degree on the sphere, 1e-6 pixel) or reported as off.
\*
\* class record:  c = [h, pix, distort, rep],  o = [err, rel]    rel: "same" | "close" | "off"
FailingClass(c, o) ==
    (IF c.rep # TanRepPix(c.h, c.pix, c.distort) THEN {"rep_not_in_class"} ELSE {}) \cup
    (IF OrdersCover(c.h) THEN {} ELSE {"header_malformed"}) \cup
    (IF o.err # "none" THEN {"unexpected_error"}
     ELSE IF o.rel \in {"same", "close"} THEN {} ELSE {"class_mates_differ"})

\* projection angles as a header-representation dimension.  The constructor takes LONPOLE / LATPOLE / THETA0 either as
\* header cards or as KEYWORDS (the documented way when they are not cards): c.ang = [place, lp, latp]
\*   place : "default" (not given) | "header" (cards) | "keyword" (constructor keywords)
\*   lp    : LONPOLE in degrees, on the lattice {0, 90, 180, 270};  latp : LATPOLE (90 = default, or 45)
\* FITS (Paper II): LONPOLE is the native longitude of the celestial pole.  For the zenithal TAN family (theta0 = 90,
\* xi = R sin(phi), eta = -R cos(phi)) north at the reference point is the native direction phi = LONPOLE and east is
\* phi = LONPOLE - 90: a header with LONPOLE = lp is the header with the default 180 whose intermediate world
\* coordinates are rotated by LonpoleRot(lp) - exact signed permutations on the lattice.  LATPOLE only selects between
\* two solutions for non-zenithal projections: it never matters here.  Where the angles are given (card or keyword)
\* is representation: it does not enter the expected value.
AngPlaces == {"default", "header", "keyword"}
LonpoleRot(lp) == CASE lp = 180 -> <<<<1, 0>>, <<0, 1>>>> [] lp = 90 -> <<<<0, -1>>, <<1, 0>>>>
                    [] lp = 270 -> <<<<0, 1>>, <<-1, 0>>>> [] lp = 0 -> <<<<-1, 0>>, <<0, -1>>>>
AngWellFormed(a) == a.place \in AngPlaces /\ a.lp \in {0, 90, 180, 270} /\ a.latp \in {45, 90}
                    /\ (a.place = "default" => a.lp = 180 /\ a.latp = 90)
AngRep(c) == Lin(LonpoleRot(c.ang.lp), TanRepPix(c.h, c.pix, c.distort))
\* angclass record: c = [h, pix, distort, rep, ang], o = [err, rel] - the class mate is the pure-TAN header with default angles
FailingAngClass(c, o) ==
    IF ~AngWellFormed(c.ang) THEN {"ang_case_malformed"}
    ELSE (IF c.rep # AngRep(c) THEN {"rep_not_in_class"} ELSE {}) \cup
         (IF OrdersCover(c.h) THEN {} ELSE {"header_malformed"}) \cup
         (IF o.err # "none" THEN {"unexpected_error"}
          ELSE IF o.rel \in {"same", "close"} THEN {} ELSE {"projection_angle_misapplied"})

\* sky record:    o = [err, on, lon, lat, inrange]   (lon, lat: the lattice point hit, as pairs <<a, b>>)
FailingRefPix(c, o) ==
    IF ~RefPixAtOrigin(c.h) THEN {}
    ELSE IF o.err # "none" THEN {"unexpected_error"}
    ELSE (IF o.inrange THEN {} ELSE {"longitude_outside_0_360"}) \cup
         (IF ~o.on THEN {"refpix_not_at_crval"}
          ELSE IF o.lat # c.crval[2] THEN {"refpix_not_at_crval"}
          ELSE IF IsPoleLat(o.lat) \/ o.lon = NormLon(c.crval[1]) THEN {} ELSE {"refpix_not_at_crval"})

\* anchor record: c = [crval : <<a0, d0>>, dir, theta, cd, pixdir]  the pixel is crpix + pixdir * R/u
FailingAnchor(c, o) ==
    IF Lin(c.cd, <<RInt(c.pixdir[1]), RInt(c.pixdir[2])>>) # <<RInt(DirVec(c.dir)[1]), RInt(DirVec(c.dir)[2])>>
    THEN {"pixel_not_on_anchor"}
    ELSE IF o.err # "none" THEN {"unexpected_error"}
    ELSE (IF o.inrange THEN {} ELSE {"longitude_outside_0_360"}) \cup
         (IF o.on /\ <<o.lon[1], o.lat[1]>> \in AnchorAllowed(c.crval, c.dir, c.theta) /\ o.lon[2] = 0 /\ o.lat[2] = 0
          THEN {} ELSE {"anchor_off"})

\* round trip:    c = [find, distort],  o = [err, dev]    dev: "within" (1e-6 px) | "off" | "nonfinite"
FailingRoundTrip(c, o) ==
    IF o.err # "none" THEN {"unexpected_error"}
    ELSE IF c.find THEN (IF o.dev = "within" THEN {} ELSE {"roundtrip_gt_1e-6_pixel"})
    ELSE (IF o.dev = "nonfinite" THEN {"inverse_not_finite"} ELSE {})

\* scalar vs array: o = [err, rel : Seq("same" | "close" | "off")], one entry per array element
FailingScalarArray(c, o) ==
    IF o.err # "none" THEN {"unexpected_error"}
    ELSE IF \A k \in DOMAIN o.rel : o.rel[k] \in {"same", "close"} THEN {} ELSE {"scalar_array_differ"}

\* input representation: the same call with the same argument VALUES in another representation
\*    c = [call, dtype, container, layout, hk],  o = [err, rel : Seq("same" | "close" | "off")]
\* The value of an argument is the exact number its representation denotes (a float32 1500.75 is
\* 1500.75); the reference is the call with python-float scalars of the same values on a fresh
\* object.  "results are the same for scalar and array inputs" + class equivalence: every element
\* must agree with the reference within the tolerance of the call.  The documentation promises
\* "scalars or arrays": for python lists, 0-d and 2-d arrays the statement is silent on whether
\* they are accepted - a rejection is allowed there, a wrong value is not.
ReprDtypes     == {"pyfloat", "pyint", "f8", "f4", "i8", "i4", "i2", "u2"}
ReprContainers == {"scalar", "array", "list", "zero_d", "two_d"}
ReprLayouts    == {"contig", "strided", "reversed", "swapped", "readonly"}
ReprWellFormed(c) ==
    /\ c.dtype \in ReprDtypes /\ c.container \in ReprContainers /\ c.layout \in ReprLayouts
    /\ (c.dtype \in {"pyfloat", "pyint"} => c.container \in {"scalar", "list"})
    /\ (c.container = "list" => c.dtype \in {"pyfloat", "pyint"})
    /\ (c.container # "array" => c.layout = "contig")
ReprMayReject(c) == c.container \in {"list", "zero_d", "two_d"}
FailingRepr(c, o) ==
    IF ~ReprWellFormed(c) THEN {"repr_case_malformed"}
    ELSE IF o.err # "none" THEN (IF ReprMayReject(c) THEN {} ELSE {"unexpected_error"})
    ELSE IF Len(o.rel) > 0 /\ \A k \in DOMAIN o.rel : o.rel[k] \in {"same", "close"} THEN {}
    ELSE {"representation_changes_result"}

\* ---------------------------------------------------------------------------------
\* 4. the call-history machine (property level).  A call is one of CallNames; its arguments are fixed
\*    by its position in the sequence (the harness uses a different pixel / sky target at each
\*    position so that a buffer left behind by an earlier call is observable).  F(call, k) is "what
\*    a fresh object returns for that call with the arguments of position k".  The property
\*    ("results ... do not depend on what other conversions the same object performed earlier"): on
\*    any object, after any prefix, the call returns F(call, k) - the same value, bit for bit (both
\*    are outputs of the same deterministic code on the same arguments; two fresh objects are checked
\*    to agree bit for bit before anything is compared).  The harness records per step how the
\*    result relates to the fresh object's: "same" (bit-identical, or the same exception class),
\*    "close" (different bits, within 1e-9 degree / 1e-6 pixel), "diff".
CallNames == {"i2s_d", "i2s_n", "s2i_dr", "s2i_dp", "s2i_np", "s2i_nr", "jac",
              "s2i_dr_xl", "s2i_dr_xt", "jac_h", "jac_n", "s2i_fail"}
\* the documented OPTIONS of the calls are part of the call name:
\*   s2i_dr_xl / s2i_dr_xt : sky2image(s, find=True, xtol = 1e-3 (loose) / 1e-11 (tight));  s2i_dr uses the default xtol
\*   jac_h : get_jacobian(p, step=0.5)       jac_n : get_jacobian(p, distort=False)
\*   s2i_fail : a call that is REJECTED half-way (sky2image on arrays of unequal length: the first element is
\*              processed, the second raises).  A rejected call is a stutter step of the property-level state: F of
\*              every later call is unchanged.
\*   i2s_d / i2s_n : image2sky(p, distort=True / False)          jac : get_jacobian(p)
\*   s2i_dr : sky2image(s, distort=True,  find=True)   (root finder)
\*   s2i_dp : sky2image(s, distort=True,  find=False)  (fitted inverse polynomial, computed lazily)
\*   s2i_np : sky2image(s, distort=False, find=False)    s2i_nr : sky2image(s, distort=False, find=True)
F(call, k) == <<"F", call, k>>
\* LIFE-CYCLE steps: the caller replaces its handle by copy.copy(w) / copy.deepcopy(w) / pickle.loads(pickle.dumps(w))
\* (what multiprocessing does with an argument) and goes on with the copy.  A copy of a WCS IS a WCS for the same
\* header and the same projection angles - wherever the angles were given (c.ang: "default" | "header" | "keyword"):
\* every later call on it must return F(call, k) of a fresh object constructed like the ORIGINAL.  The statement does
\* not promise that the object can be copied: a life-cycle step that raises is a stutter step (the caller keeps its
\* handle, rel = "rejected"); one that returns an object is recorded as "same".
LifeOps == {"copy", "deepcopy", "pickle"}
\* a recorded step [call, rel] is allowed iff its result is F(call, k)
StepAllowed(s) == \/ s.call \in CallNames /\ s.rel = "same"
                  \/ s.call \in LifeOps /\ s.rel \in {"same", "rejected"}
FailingHistory(c, o) ==
    IF Len(o.steps) # Len(c.calls) \/ (\E k \in DOMAIN c.calls : o.steps[k].call # c.calls[k]) \/ c.ang \notin AngPlaces
    THEN {"trace_mismatch"}
    ELSE IF \A k \in DOMAIN o.steps : StepAllowed(o.steps[k]) THEN {} ELSE {"result_depends_on_history"}

\* histories over SEVERAL objects alive in one process (the "world": the objects plus whatever the module keeps
\* between calls).  c = [hk, rels, calls : Seq([o, call])]: object 1 is built from the base header, object k + 1 from
\* the header related to it by rels[k] ("same": identical; "cutout": same coefficients, CRPIX shifted and NAXIS
\* 128 x 128; "cd": CD scaled and rotated; "crval": another reference point).  The property: every result equals
\* that call on a fresh object in a fresh process - F does not depend on the world either.
WorldRels == {"same", "cutout", "cd", "crval"}
FailingWorld(c, o) ==
    IF Len(o.steps) # Len(c.calls) \/ (\E k \in DOMAIN c.calls : o.steps[k].call # c.calls[k].call \/ o.steps[k].o # c.calls[k].o)
       \/ (\E k \in DOMAIN c.rels : c.rels[k] \notin WorldRels) \/ (\E k \in DOMAIN c.calls : c.calls[k].o \notin 1..(Len(c.rels) + 1))
    THEN {"trace_mismatch"}
    ELSE IF \A k \in DOMAIN o.steps : StepAllowed(o.steps[k]) THEN {} ELSE {"result_depends_on_other_objects"}

Failing(r) ==
    CASE r.kind = "class"     -> FailingClass(r.c, r.o)
      [] r.kind = "refpix"    -> FailingRefPix(r.c, r.o)
      [] r.kind = "anchor"    -> FailingAnchor(r.c, r.o)
      [] r.kind = "roundtrip" -> FailingRoundTrip(r.c, r.o)
      [] r.kind = "scalar"    -> FailingScalarArray(r.c, r.o)
      [] r.kind = "history"   -> FailingHistory(r.c, r.o)
      [] r.kind = "repr"      -> FailingRepr(r.c, r.o)
      [] r.kind = "world"     -> FailingWorld(r.c, r.o)
      [] r.kind = "angclass"  -> FailingAngClass(r.c, r.o)
      [] OTHER                -> {"unknown_record_kind"}
=============================================================================
