------------------------------- MODULE WcsMC -------------------------------
(* Bounded models for C10.                                                         *)
(*  A. (InitC / NextC) every header of the bounded space x pixel: TLC computes the  *)
(*     exact World, i.e. the pixel of the class's pure-TAN representative, exports  *)
(*     the case, and checks an implementation-shaped model of wcsutil's coefficient *)
(*     extraction + Distort + image2sky ordering against World (MechRefines), and   *)
(*     the find/distort dispatch of sky2image against "inverts the transform the    *)
(*     caller named" (S2IDispatchRefines).                                          *)
(*  B. (NextS) sky anchors: reference pixel -> CRVAL, gnomonic anchors.             *)
(*  D. (NextR) input representations: call x dtype x container x layout x header.   *)
(*  E. (InitW / NextW) the world: two or three objects alive in one process, built   *)
(*     from related headers, calls interleaved; module-level state is world state.   *)
(*  C. (InitH / NextH) the call-history machine: every call sequence up to MaxHist  *)
(*     over HistCalls on one object (implementation-shaped object state: lazy       *)
(*     inverse, root-finder scratch) - each result must equal the fresh object's;   *)
(*     Life(op): copy / deepcopy / pickle steps x where the angles were given.      *)
(*  A2. (ChooseAng) projection angles as cards / constructor keywords: AngRefines.  *)
EXTENDS Wcs, Json

CONSTANTS Projs,        \* subset of {"TAN", "TPV", "TANPV", "SIP"}
          CDIds,        \* ids of CDMat
          PixIds,       \* ids of PixOff
          CrpixIds,     \* ids of CrpixOf
          MaxExtra,     \* 0..2 coefficients besides the identity set
          SipMaxOrder,  \* 2..4
          Repaired,     \* TRUE: the three SIP / find-dispatch defects of the pinned tree repaired
          PVMapVariant, \* "pinned" | "pv2_as_pv1"  (self-test: a wrong scamp map must violate MechRefines)
          SkyCDIds, SkyLons, SkyLats,   \* anchors: CD ids (signed permutations), CRVAL lattice
          RefCDIds, RefLonIds, RefLatIds,   \* reference-pixel check: CD ids, ids of RefLon / RefLat
          HistCalls, MaxHist, ShortKinds,    \* sequences of length MaxHist (MaxHist - 1 for the header kinds in ShortKinds)
          HistVariant,                       \* "pinned" | "warm_start" | "stale_inverse" | "identity_cache"
          HistArgModes,                      \* subset of {"scalar", "buffer"}: how the caller hands over the arguments
          HistKinds,                         \* header kinds of the history machine
          WorldCalls, WorldLen, WorldRelIds, WorldKinds,   \* several objects in one process
          WorldVariant,                      \* "pinned" | "module_memo"  (self-test: inverse fit memoised per coefficient set)
          PolyVariant,                       \* "pinned" | "zip_pair"  (self-test: evaluating the A/B pair over the common shape)
          OrdVariety,                        \* TRUE: SIP A/B (AP/BP) orders and the PV keyword sets of the two axes vary independently
          ReprCalls, ReprKinds,              \* input representations: calls and header kinds
          AngCDIds, AngPixIds,               \* projection angles as cards / constructor keywords: CD ids and pixel ids of the angle classes
          AngVariant,                        \* "pinned" | "keyword_dropped"  (self-test: angles given as keywords ignored)
          HistAngs,                          \* where the history object got its projection angles: subset of AngPlaces
          LifeCalls,                         \* subset of LifeOps: copy / deepcopy / pickle steps in the history machine
          LifeVariant,                       \* "pinned" | "rebuild_from_header"  (self-test: a copy rebuilt from the header alone)
          DoExport

VARIABLES phase, c, hk, obj, calls, results
vars == <<phase, c, hk, obj, calls, results>>

\* ---- the bounded lattice -----------------------------------------------------------
CDMat(k) == CASE k = 1  -> <<<<1, 0>>, <<0, 1>>>>
              [] k = 2  -> <<<<0, -1>>, <<1, 0>>>>        \* rotations by 90, 180, 270 degrees
              [] k = 3  -> <<<<-1, 0>>, <<0, -1>>>>
              [] k = 4  -> <<<<0, 1>>, <<-1, 0>>>>
              [] k = 5  -> <<<<-1, 0>>, <<0, 1>>>>        \* flips (5: the usual sky orientation)
              [] k = 6  -> <<<<1, 0>>, <<0, -1>>>>
              [] k = 7  -> <<<<0, 1>>, <<1, 0>>>>
              [] k = 8  -> <<<<0, -1>>, <<-1, 0>>>>
              [] k = 9  -> <<<<2, 1>>, <<-1, 2>>>>        \* rotation by atan(1/2) with scale
              [] k = 10 -> <<<<1, 0>>, <<0, 2>>>>         \* non-square pixels
              [] k = 11 -> <<<<1, 1>>, <<0, 1>>>>         \* shear
              [] k = 12 -> <<<<-2, 0>>, <<1, 1>>>>
PixOff(k) == CASE k = 1 -> <<<<3, 1>>, <<-2, 1>>>>  [] k = 2 -> <<<<-1, 1>>, <<4, 1>>>>
               [] k = 3 -> <<<<-5, 1>>, <<-3, 1>>>> [] k = 4 -> <<<<2, 1>>, <<7, 1>>>>
               [] k = 5 -> <<<<8, 1>>, <<1, 1>>>>   [] k = 6 -> <<<<5, 2>>, <<-7, 4>>>>
               [] k = 7 -> <<<<0, 1>>, <<0, 1>>>>
CrpixOf(k) == CASE k = 1 -> <<0, 0>> [] k = 2 -> <<5, -7>>

\* coefficient magnitudes by degree (in pixel-scale units: a degree-n term moves a pixel at offset 8
\* by about two pixels), multipliers +1 and -3
Base(deg) == CASE deg = 0 -> <<1, 2>> [] deg = 1 -> <<1, 8>> [] deg = 2 -> <<1, 32>> [] deg = 3 -> <<1, 256>>
               [] deg = 4 -> <<1, 2048>>
Mults == {1, -3}
PVSlots  == {[ax |-> a, j |-> j, p |-> 0, q |-> 0] : a \in 1..2, j \in PVSupported}
SIPSlots == {[ax |-> a, j |-> 0, p |-> p, q |-> q] : a \in 1..2, p \in 0..SipMaxOrder, q \in 0..SipMaxOrder}
SlotsOf(proj) == IF proj = "TAN" THEN {}
                 ELSE IF proj = "SIP" THEN {s \in SIPSlots : s.p + s.q >= 2 /\ s.p + s.q <= SipMaxOrder}
                 ELSE PVSlots
SlotKey(s) == s.ax * 1000 + s.j * 100 + s.p * 10 + s.q
SlotDeg(proj, s) == IF proj = "SIP" THEN s.p + s.q ELSE PVDeg(s.j)
SlotVal(proj, s, m) ==
    LET b == RMul(RInt(m), Base(SlotDeg(proj, s)))
    IN IF proj # "SIP" /\ s.j = 1 THEN RAdd(WOne, b) ELSE b
Coef(proj, s, m) == [ax |-> s.ax, j |-> s.j, p |-> s.p, q |-> s.q, val |-> SlotVal(proj, s, m), deg |-> SlotDeg(proj, s)]

NoCase == [kind |-> "none"]
NoObj  == [inv |-> "absent", guess |-> "none"]

\* ---- A. classes ----------------------------------------------------------------------
InitC == phase = "start" /\ c = NoCase /\ hk = "none" /\ obj = NoObj /\ calls = <<>> /\ results = <<>>

\* the representation part of a header: declared SIP orders (A, B independent; AP, BP independent and
\* independent of A, B) and the PV keyword sets of the two axes.  The inverse orders are tied to the forward
\* ones by three patterns (a covering, not the product): equal to the larger forward order, crossed and
\* raised (AP = B + 1, BP = A), or absent.
SipOrders == 2..SipMaxOrder
InvPatterns == {"absent", "equal", "crossed"}
InvOrd(pat, ao, bo) == CASE pat = "absent" -> <<0, 0>>
                         [] pat = "equal" -> <<VMax2(ao, bo), VMax2(ao, bo)>>
                         [] pat = "crossed" -> <<bo + 1, ao>>
PVSetPairs == {<<"all", "all">>, <<"all", "deg1">>, <<"one", "all">>, <<"deg2", "one">>}
ChooseShape ==
    /\ phase = "start"
    /\ \E pr \in Projs : \E cd \in CDIds : \E cp \in CrpixIds :
          \E ao \in SipOrders : \E bo \in SipOrders : \E pat \in InvPatterns : \E ps \in PVSetPairs :
          /\ (pr # "SIP" => ao = 2 /\ bo = 2 /\ pat = "equal")
          /\ (~IsPV([proj |-> pr]) => ps = <<"all", "all">>)
          /\ (~OrdVariety => ps = <<"all", "all">> /\ (pr = "SIP" => ao = SipMaxOrder /\ bo = SipMaxOrder /\ pat # "crossed"))
          /\ c' = [kind |-> "shape",
                   h |-> [proj |-> pr, crpix |-> CrpixOf(cp), cd |-> CDMat(cd), co |-> <<>>, invkeys |-> pat # "absent",
                          ord |-> IF pr = "SIP" THEN <<ao, bo>> ELSE <<0, 0>>,
                          iord |-> IF pr = "SIP" THEN InvOrd(pat, ao, bo) ELSE <<0, 0>>, pvsets |-> ps]]
    /\ phase' = "shape" /\ UNCHANGED <<hk, obj, calls, results>>

\* the optional inverse keywords are irrelevant to the forward chain: the variant without them is
\* enumerated with at most one coefficient
ChooseCoefs ==
    /\ phase = "shape"
    /\ LET pr == c.h.proj  S == SlotsOf(pr) IN
       \/ pr # "SIP" /\ c' = [c EXCEPT !.kind = "header"]        \* the identity set alone
       \/ MaxExtra >= 1 /\ \E s \in S : \E m \in Mults :
             /\ c' = [kind |-> "header", h |-> [c.h EXCEPT !.co = <<Coef(pr, s, m)>>]]
             /\ OrdersCover(c'.h)                 \* a coefficient only where the declared order of its axis admits it
       \/ MaxExtra >= 2 /\ c.h.invkeys /\ \E s1, s2 \in S : \E m1, m2 \in Mults :
             /\ SlotKey(s1) < SlotKey(s2)
             /\ c' = [kind |-> "header", h |-> [c.h EXCEPT !.co = <<Coef(pr, s1, m1), Coef(pr, s2, m2)>>]]
             /\ OrdersCover(c'.h)
    /\ phase' = "header" /\ UNCHANGED <<hk, obj, calls, results>>

ChoosePix ==
    /\ phase = "header"
    /\ \E pk \in PixIds : \E ds \in BOOLEAN :
          \* distort=False ignores the coefficients: one coefficient at most, PV headers with the identity set only,
          \* SIP headers with equal declared orders only
          /\ (~ds => Len(c.h.co) <= 1 /\ (IsPV(c.h) => c.h.co = <<>>) /\ c.h.ord[1] = c.h.ord[2])
          /\ LET off == PixOff(pk)
                 pix == <<RAdd(off[1], RInt(c.h.crpix[1])), RAdd(off[2], RInt(c.h.crpix[2]))>>
             IN c' = [kind |-> "class", h |-> c.h, pix |-> pix, distort |-> ds,
                      rep |-> TanRepPix(c.h, pix, ds)]
    /\ phase' = "case" /\ UNCHANGED <<hk, obj, calls, results>>

\* reference pixel of every enumerated header x CRVAL lattice (symbolic eps offsets)
RefLon(k) == CASE k = 1 -> <<0, 0>> [] k = 2 -> <<0, 1>> [] k = 3 -> <<0, -1>> [] k = 4 -> <<360, 0>>
               [] k = 5 -> <<180, 0>> [] k = 6 -> <<359, 0>> [] k = 7 -> <<-10, 0>> [] k = 8 -> <<90, 1>>
               [] k = 9 -> <<720, -1>>
RefLat(k) == CASE k = 1 -> <<0, 0>> [] k = 2 -> <<90, 0>> [] k = 3 -> <<-90, 0>> [] k = 4 -> <<90, -1>>
               [] k = 5 -> <<-90, 1>> [] k = 6 -> <<45, 0>> [] k = 7 -> <<-60, 1>> [] k = 8 -> <<0, -1>>
ChooseRef ==
    /\ phase = "header" /\ RefPixAtOrigin(c.h)
    /\ c.h.cd \in {CDMat(k) : k \in RefCDIds}
    /\ \/ Len(c.h.co) = 0                    \* identity set, or one quadratic coefficient (PV1_4 / A_2_0)
       \/ /\ Len(c.h.co) = 1 /\ c.h.co[1].deg = 2 /\ c.h.co[1].val[1] > 0 /\ c.h.co[1].ax = 1
          /\ c.h.co[1].j \in {0, 4} /\ c.h.co[1].q = 0
    /\ \E lo \in RefLonIds : \E la \in RefLatIds :
          c' = [kind |-> "refpix", h |-> c.h, crval |-> <<RefLon(lo), RefLat(la)>>,
                exp |-> <<NormLon(RefLon(lo)), RefLat(la)>>, lonfree |-> IsPoleLat(RefLat(la))]
    /\ phase' = "case" /\ UNCHANGED <<hk, obj, calls, results>>

\* projection angles: where (card | keyword) x LONPOLE lattice x LATPOLE; the expected class representative is the
\* World value rotated by LonpoleRot.  One coefficient at most, distort = TRUE, CD / pixel ids of their own.
\* (a covering: every placement x LONPOLE once, LATPOLE alternating)
AngSet == {a \in [place : {"header", "keyword"}, lp : {0, 90, 180, 270}, latp : {45, 90}] :
              AngWellFormed(a) /\ ((a.latp = 45) <=> ((a.lp \in {0, 90}) <=> (a.place = "keyword")))}
ChooseAng ==
    /\ phase = "header" /\ Len(c.h.co) <= 1 /\ c.h.ord[1] = c.h.ord[2] /\ c.h.pvsets[1] = c.h.pvsets[2]
    /\ c.h.cd \in {CDMat(k) : k \in AngCDIds}
    /\ \E pk \in AngPixIds : \E a \in AngSet :
          LET off == PixOff(pk)
              pix == <<RAdd(off[1], RInt(c.h.crpix[1])), RAdd(off[2], RInt(c.h.crpix[2]))>>
              cc  == [kind |-> "angclass", h |-> c.h, pix |-> pix, distort |-> TRUE, ang |-> a]
          IN c' = [kind |-> "angclass", h |-> c.h, pix |-> pix, distort |-> TRUE, ang |-> a, rep |-> AngRep(cc)]
    /\ phase' = "case" /\ UNCHANGED <<hk, obj, calls, results>>

NextC == ChooseShape \/ ChooseCoefs \/ ChoosePix \/ ChooseRef \/ ChooseAng

\* ---- implementation-shaped model of the forward chain ------------------------------------
\* esutil/wcsutil.py _scamp_map: key pv<ax>_<j> -> index (i, k) of the coefficient matrix;
\* Apply2DPolynomial(a, x, y) = sum a[i, k] x^i y^k, called with x = xi-like, y = eta-like argument
ScampMap(ax, j) ==
    IF ax = 1 \/ PVMapVariant = "pv2_as_pv1"
    THEN CASE j = 0 -> <<0, 0>> [] j = 1 -> <<1, 0>> [] j = 2 -> <<0, 1>> [] j = 4 -> <<2, 0>> [] j = 5 -> <<1, 1>>
           [] j = 6 -> <<0, 2>> [] j = 7 -> <<3, 0>> [] j = 8 -> <<2, 1>> [] j = 9 -> <<1, 2>> [] j = 10 -> <<0, 3>>
    ELSE CASE j = 0 -> <<0, 0>> [] j = 1 -> <<0, 1>> [] j = 2 -> <<1, 0>> [] j = 4 -> <<0, 2>> [] j = 5 -> <<1, 1>>
           [] j = 6 -> <<2, 0>> [] j = 7 -> <<0, 3>> [] j = 8 -> <<1, 2>> [] j = 9 -> <<2, 1>> [] j = 10 -> <<3, 0>>
ScampKeys == <<0, 1, 2, 4, 5, 6, 7, 8, 9, 10>>          \* range(11) without _scamp_skip = [3]
\* the harness writes complete PV sets: every key present, PVi_1 = 1 and the others 0 unless chosen
\* ExtractPVCoeffs: a 4x4 matrix per axis, zero where the keyword is absent
PVKeyPresent(h, ax, j) == j = 1 \/ j \in PVSetKeys(h.pvsets[ax]) \/ HasCoef(h, ax, j, 0, 0)
MechPVPoly(h, ax, x, y) ==
    RSum([n \in 1..Len(ScampKeys) |->
            LET j == ScampKeys[n]  ik == ScampMap(ax, j)
                a == IF PVKeyPresent(h, ax, j) THEN CoefOr(h, ax, j, 0, 0, IF j = 1 THEN WOne ELSE WZero) ELSE WZero
            IN IF a = WZero THEN WZero ELSE RMul(a, RMul(WPow(x, ik[1]), WPow(y, ik[2])))])
\* ExtractDistortionModel: the model is present iff a key of the FIRST polynomial was found
MechName(h) ==
    IF h.proj = "TAN" THEN "none"
    ELSE IF IsPV(h) THEN "scamp"
    ELSE IF Repaired THEN (IF h.co # <<>> THEN "sip" ELSE "none")
    ELSE IF \E k \in DOMAIN h.co : h.co[k].ax = 1 THEN "sip" ELSE "none"
\* ExtractSIPCoeffs: an (order+1) x (order+1) matrix per axis, filled from the keys <prefix>_<p>_<q>, p, q <= order;
\* Apply2DPolynomial walks the whole matrix of ITS axis.  Variant "zip_pair": the two polynomials evaluated in one
\* pass over the shape the two matrices have in common.
MechSIPUses(h, k) ==
    LET o == h.ord[h.co[k].ax]  m == VMin2(h.ord[1], h.ord[2]) IN
    /\ h.co[k].p <= o /\ h.co[k].q <= o
    /\ (PolyVariant = "zip_pair" => h.co[k].p <= m /\ h.co[k].q <= m)
MechSIPPoly(h, ax, x, y) ==
    RSum([k \in DOMAIN h.co |->
            IF h.co[k].ax = ax /\ MechSIPUses(h, k) THEN RMul(h.co[k].val, RMul(WPow(x, h.co[k].p), WPow(y, h.co[k].q))) ELSE WZero])
MechDistort(h, x, y) ==
    IF MechName(h) = "scamp" THEN <<MechPVPoly(h, 1, x, y), MechPVPoly(h, 2, x, y)>>     \* xp = 0*x + poly
    ELSE <<RAdd(x, MechSIPPoly(h, 1, x, y)), RAdd(y, MechSIPPoly(h, 2, x, y))>>            \* xp = x*1.0 + poly
\* __init__ -> ExtractSIPCoeffs(prefix "ap"): _dict_get(wcs, "ap_order") raises without the key; only reached
\* when an A coefficient was found
MechConstructs(h) == h.proj # "SIP" \/ h.invkeys \/ Repaired \/ ~(\E k \in DOMAIN h.co : h.co[k].ax = 1)
MechI2S(h, pix, distort) ==
    IF ~MechConstructs(h) THEN Err("ValueError")
    ELSE LET d == Offset(h, pix) IN
         IF h.proj # "SIP"
         THEN LET w == Lin(h.cd, d) IN
              IF distort /\ MechName(h) # "none" THEN Ok(MechDistort(h, w[1], w[2])) ELSE Ok(w)
         ELSE IF distort /\ MechName(h) # "none" THEN Ok(Lin(h.cd, MechDistort(h, d[1], d[2])))
              ELSE IF Repaired THEN Ok(Lin(h.cd, d)) ELSE Err("UnboundLocalError")    \* u, v never bound

\* SetAngles: a card wins, else the constructor keyword, else the default; CreateRotationMatrix uses the attribute
MechLp(a) == IF a.place = "header" THEN a.lp
             ELSE IF a.place = "keyword" /\ AngVariant # "keyword_dropped" THEN a.lp ELSE 180
AngRefines == phase = "case" /\ c.kind = "angclass" =>
    LET r == MechI2S(c.h, c.pix, c.distort) IN
    /\ r.err = "none" /\ Lin(LonpoleRot(MechLp(c.ang)), r.val) = c.rep
    /\ World(TanRepHeader, c.rep, TRUE) = Lin(LonpoleRot(c.ang.lp), World(c.h, c.pix, c.distort))
    /\ (c.ang.lp = 180 => c.rep = World(c.h, c.pix, c.distort))

MechRefines == phase = "case" /\ c.kind = "class" => MechI2S(c.h, c.pix, c.distort) = Ok(World(c.h, c.pix, c.distort))

\* which forward transform sky2image(distort, find) inverts: the statement - the one the caller named;
\* the code - the root finder always evaluates image2sky(x, y) with its default distort=True
PropInverts(h, distort, find) == IF distort /\ h.proj # "TAN" THEN "distorted" ELSE "undistorted"
MechInverts(h, distort, find) ==
    IF find /\ MechName(h) # "none" /\ (distort \/ ~Repaired) THEN "distorted"        \* _findxy
    ELSE IF distort /\ MechName(h) # "none" THEN "distorted"                            \* fitted inverse polynomial
    ELSE "undistorted"
S2IDispatchRefines == phase = "header" =>
    \A ds \in BOOLEAN : \A fd \in BOOLEAN : MechInverts(c.h, ds, fd) = PropInverts(c.h, ds, fd)

\* theorems about the property-level spec itself
ClassSound == phase = "case" /\ c.kind = "class" =>
    /\ World(TanRepHeader, c.rep, TRUE) = World(c.h, c.pix, c.distort)           \* the representative is in the class
    /\ World(TanRepHeader, c.rep, FALSE) = c.rep
    /\ (~c.distort => c.rep = Lin(c.h.cd, Offset(c.h, c.pix)))
RadialExample ==      \* the radial entries of the table, at a Pythagorean offset
    LET h == [proj |-> "TPV", crpix |-> <<0, 0>>, cd |-> IdentityCD, invkeys |-> TRUE,
              co |-> <<[ax |-> 1, j |-> 3, p |-> 0, q |-> 0, val |-> <<1, 5>>], [ax |-> 2, j |-> 11, p |-> 0, q |-> 0, val |-> <<1, 25>>]>>]
    IN World(h, <<RInt(3), RInt(-4)>>, TRUE) = <<RInt(4), RInt(1)>>
ASSUME RadialExample

\* ---- B. sky anchors ------------------------------------------------------------------------
ChooseAnchor ==
    /\ phase = "start"
    /\ \E a0 \in SkyLons : \E d0 \in SkyLats : \E dir \in Dirs : \E th \in Thetas : \E cd \in SkyCDIds :
          /\ AnchorDefined(<<a0, d0 - 90>>, dir)
          /\ LET M == CDMat(cd)
                 pd == CHOOSE v \in {<<x, y>> : x \in -1..1, y \in -1..1} :
                           Lin(M, <<RInt(v[1]), RInt(v[2])>>) = <<RInt(DirVec(dir)[1]), RInt(DirVec(dir)[2])>>
             IN c' = [kind |-> "anchor", crval |-> <<a0, d0 - 90>>, dir |-> dir, theta |-> th, cd |-> M, pixdir |-> pd,
                      tansq |-> TanSq(th), allowed |-> AnchorAllowed(<<a0, d0 - 90>>, dir, th)]
    /\ phase' = "case" /\ UNCHANGED <<hk, obj, calls, results>>
NextS == ChooseAnchor
\* latitudes are passed shifted by +90 (cfg files cannot hold negative numbers)

AnchorSound == phase = "case" /\ c.kind = "anchor" =>
    \A pt \in c.allowed : pt[1] \in 0..359 /\ pt[2] \in -90..90

\* ---- C. history machine --------------------------------------------------------------------
\* object state of wcsutil.WCS that outlives a call:
\*   inv   : "absent" | "fitted"   (distort['ap'], distort['bp'] + _inverse_computed)
\*   guess : what the root finder's xyguess / lonlat_answer buffers hold
\*   memo  : (variant "identity_cache" only) the last call, the identity of its argument object and its result
\* The arguments of step n are the values of position n.  The caller hands them over either as fresh python
\* scalars ("scalar") or in ONE pair of arrays that it overwrites in place before every call ("buffer": the
\* identity of the argument object never changes, its contents do).
\* results are records [op, a, b] naming the computation that produced the value
Res(op, a, b) == [op |-> op, a |-> a, b |-> b]
Distorted(k) == k # "TAN"
NoArg == <<"-", 0>>
NoMemo == [call |-> "none", id |-> "none", res |-> Res("none", NoArg, "-")]
MechCall0(k, st, call, pos, mode) ==
    LET s      == <<"s", pos>>
        p      == <<"p", pos>>
        argid  == IF mode = "buffer" THEN "caller_buffer" ELSE "fresh"
        tanInv == Res("tan_inverse", s, "-")
        \* the root finder with tolerance x (variant "solver_cached": the solver is built by the first root-finding
        \* call of the object with ITS tolerance bound in)
        Root(x) == LET g  == IF HistVariant = "warm_start" /\ st.guess[1] # "none" THEN st.guess ELSE <<"tan_inverse", s>>
                       xt == IF HistVariant = "solver_cached" /\ st.solver # "none" THEN st.solver ELSE x
                   IN [st |-> [st EXCEPT !.guess = <<"root", s>>, !.solver = IF st.solver = "none" THEN x ELSE st.solver],
                       res |-> Res("root", s, <<g, xt>>)]
        root   == Root("default")
        \* rejected half-way: the first element went through the root finder (scratch buffers written), then the
        \* call raised; for an undistorted header the call is rejected before anything is computed
        failed == IF Distorted(k) THEN [st |-> Root("default").st, res |-> Res("rejected", s, "-")]
                  ELSE [st |-> st, res |-> Res("rejected", s, "-")]
        poly   == LET used == IF HistVariant = "stale_inverse" THEN st.inv ELSE "fitted"
                  IN [st |-> [st EXCEPT !.inv = "fitted"], res |-> Res("inverse_poly", s, used)]
        plain  == CASE call = "i2s_d"  -> [st |-> st, res |-> Res("forward", p, IF Distorted(k) THEN "distorted" ELSE "tan")]
                    [] call = "i2s_n"  -> [st |-> st, res |-> IF k = "SIP" /\ ~Repaired THEN Res("UnboundLocalError", NoArg, "-")
                                                               ELSE Res("forward", p, "tan")]
                    [] call = "jac"    -> [st |-> st, res |-> Res("jacobian", p, IF Distorted(k) THEN "distorted" ELSE "tan")]
                    [] call = "s2i_dr" -> IF Distorted(k) THEN root ELSE [st |-> st, res |-> tanInv]
                    [] call = "s2i_dr_xl" -> IF Distorted(k) THEN Root("loose") ELSE [st |-> st, res |-> tanInv]
                    [] call = "s2i_dr_xt" -> IF Distorted(k) THEN Root("tight") ELSE [st |-> st, res |-> tanInv]
                    [] call = "s2i_fail" -> failed
                    [] call = "jac_h"  -> [st |-> st, res |-> Res("jacobian_half_step", p, IF Distorted(k) THEN "distorted" ELSE "tan")]
                    [] call = "jac_n"  -> [st |-> st, res |-> Res("jacobian", p, "tan")]
                    [] call = "s2i_nr" -> IF Distorted(k) /\ ~Repaired THEN root ELSE [st |-> st, res |-> tanInv]
                    [] call = "s2i_dp" -> IF Distorted(k) THEN poly ELSE [st |-> st, res |-> tanInv]
                    [] call = "s2i_np" -> [st |-> st, res |-> tanInv]
    IN IF HistVariant = "identity_cache" /\ argid # "fresh" /\ st.memo.call = call /\ st.memo.id = argid
       THEN [st |-> st, res |-> st.memo.res]                           \* "same object as last time": the stale result
       ELSE IF HistVariant = "identity_cache"
            THEN [st |-> [plain.st EXCEPT !.memo = [call |-> call, id |-> argid, res |-> plain.res]], res |-> plain.res]
            ELSE plain

\* every result is computed with the projection angles the object holds: "ctor" (what the constructor was given -
\* cards or keywords) or "default" (180 / 90 / 90)
MechCall(k, st, call, pos, mode) ==
    LET r == MechCall0(k, st, call, pos, mode)
    IN [st |-> r.st, res |-> [op |-> r.res.op, a |-> r.res.a, b |-> r.res.b, ang |-> st.ang]]
\* life-cycle steps.  The code: no __reduce__ / __getstate__ - copy.copy copies the attribute dictionary (the copy shares the
\* scratch arrays and the distortion dictionary with the original), deepcopy / pickle duplicate them: the same abstract
\* state either way (the caller goes on with the copy only).  Variant "rebuild_from_header": the copy is WCS(header) -
\* a new object that knows the cards but not the constructor keywords.
LifeRes == [op |-> "life", a |-> NoArg, b |-> "-", ang |-> "-"]
HNoObj == [inv |-> "absent", guess |-> <<"none", <<"s", 0>>>>, memo |-> NoMemo, solver |-> "none", ang |-> "ctor"]
MechLife(st, op, place) ==
    IF LifeVariant = "rebuild_from_header" THEN [HNoObj EXCEPT !.ang = IF place = "keyword" THEN "default" ELSE "ctor"]
    ELSE st
InitH == phase = "hist" /\ c = NoCase /\ hk = "none" /\ obj = HNoObj /\ calls = <<>> /\ results = <<>>
ChooseKind == hk = "none" /\ \E k \in HistKinds : \E m \in HistArgModes : \E a \in HistAngs :
                 hk' = k /\ c' = [kind |-> "argmode", mode |-> m, ang |-> a] /\ UNCHANGED <<phase, obj, calls, results>>
\* the buffer mode is explored one call shorter (it multiplies the sequences by two)
HistLen(k) == (IF k \in ShortKinds THEN MaxHist - 1 ELSE MaxHist) - (IF c.kind = "argmode" /\ c.mode = "buffer" THEN 1 ELSE 0)
Call(cl) ==
    /\ hk # "none" /\ Len(calls) < HistLen(hk)
    /\ LET r == MechCall(hk, obj, cl, Len(calls) + 1, c.mode) IN
          /\ obj' = r.st
          /\ results' = Append(results, r.res)
    /\ calls' = Append(calls, cl)
    /\ UNCHANGED <<phase, c, hk>>
Life(op) ==
    /\ hk # "none" /\ Len(calls) < HistLen(hk)
    /\ obj' = MechLife(obj, op, c.ang)
    /\ results' = Append(results, LifeRes)
    /\ calls' = Append(calls, op)
    /\ UNCHANGED <<phase, c, hk>>
NextH == ChooseKind \/ (\E cl \in HistCalls : Call(cl)) \/ (\E op \in LifeCalls : Life(op))

\* the property: every result is what a fresh object - constructed like the original - returns for that call with the
\* arguments of its position, whatever calls and life-cycle steps preceded
HistoryIndependent == \A k \in DOMAIN results :
    IF calls[k] \in LifeOps THEN results[k] = LifeRes ELSE results[k] = MechCall(hk, HNoObj, calls[k], k, c.mode).res

\* ---- E. the world: several objects alive in one process ---------------------------------------------
\* obj = [objs : Seq([core : object state as above, invfp : footprint the lazily fitted inverse was made for]),
\*        mod  : what the MODULE keeps between calls (pinned code: nothing)]
\* calls = Seq([o, call]); the relation tuple (objects 2.. to object 1) is chosen first.
RelTuple(id) == CASE id = 1 -> <<"same">> [] id = 2 -> <<"cutout">> [] id = 3 -> <<"cd">> [] id = 4 -> <<"crval">>
                  [] id = 5 -> <<"cutout", "same">> [] id = 6 -> <<"same", "cutout">> [] id = 7 -> <<"cd", "cutout">>
                  [] id = 8 -> <<"crval", "same">>
\* what the fitted inverse polynomial depends on besides the coefficients: CRPIX, NAXIS, CD
Footprint(rel) == CASE rel \in {"base", "same", "crval"} -> "fp_base" [] rel = "cutout" -> "fp_cutout" [] rel = "cd" -> "fp_cd"
RelOfObj(o) == IF o = 1 THEN "base" ELSE RelTuple(c.relid)[o - 1]
WObj == [core |-> HNoObj, invfp |-> "none"]
FreshWorld(n) == [objs |-> [i \in 1..n |-> WObj], mod |-> "none"]
MechCallW(k, w, o, call, pos) ==
    LET st    == w.objs[o]
        fp    == Footprint(RelOfObj(o))
        r     == MechCall(k, st.core, call, pos, "scalar")
        poly  == call = "s2i_dp" /\ Distorted(k)
        fits  == poly /\ st.invfp = "none"                       \* the lazy fit happens in this call
        memo  == WorldVariant = "module_memo" /\ k # "SIP"       \* variant: PV inverse memoised per coefficient set
        fitfp == IF ~fits THEN st.invfp ELSE IF memo /\ w.mod # "none" THEN w.mod ELSE fp
        res   == IF poly THEN [r.res EXCEPT !.b = <<r.res.b, fitfp>>] ELSE r.res
    IN [w |-> [objs |-> [w.objs EXCEPT ![o] = [core |-> r.st, invfp |-> fitfp]],
               mod  |-> IF fits /\ memo /\ w.mod = "none" THEN fp ELSE w.mod],
        res |-> res]
NObjW == Len(RelTuple(c.relid)) + 1
InitW == phase = "world" /\ c = NoCase /\ hk = "none" /\ obj = HNoObj /\ calls = <<>> /\ results = <<>>
ChooseWorld == hk = "none" /\ \E k \in WorldKinds : \E id \in WorldRelIds :
                  /\ hk' = k /\ c' = [kind |-> "world", relid |-> id]
                  /\ obj' = FreshWorld(Len(RelTuple(id)) + 1) /\ UNCHANGED <<phase, calls, results>>
CallW(o, cl) ==
    /\ hk # "none" /\ Len(calls) < WorldLen /\ o \in 1..NObjW
    /\ LET r == MechCallW(hk, obj, o, cl, Len(calls) + 1) IN
          /\ obj' = r.w
          /\ results' = Append(results, r.res)
    /\ calls' = Append(calls, [o |-> o, call |-> cl])
    /\ UNCHANGED <<phase, c, hk>>
NextW == ChooseWorld \/ \E o \in 1..3 : \E cl \in WorldCalls : CallW(o, cl)
\* every result is what that call returns on a fresh object in a fresh process
WorldIndependent == \A n \in DOMAIN results :
    results[n] = MechCallW(hk, FreshWorld(NObjW), calls[n].o, calls[n].call, n).res

\* ---- D. input representations ------------------------------------------------------------------
\* every call x element type x container x layout the well-formedness rule of Wcs.tla admits x header kind
ChooseRepr ==
    /\ phase = "start"
    /\ \E cl \in ReprCalls : \E dt \in ReprDtypes : \E ct \in ReprContainers : \E ly \in ReprLayouts : \E k \in ReprKinds :
          LET r == [kind |-> "repr", call |-> cl, dtype |-> dt, container |-> ct, layout |-> ly, hk |-> k] IN
          /\ ReprWellFormed(r)
          /\ (ly = "swapped" => dt \notin {"pyfloat", "pyint"})
          /\ c' = r
    /\ phase' = "case" /\ UNCHANGED <<hk, obj, calls, results>>
NextR == ChooseRepr
ReprSound == phase = "case" /\ c.kind = "repr" => ReprWellFormed(c)

\* ---- export ----------------------------------------------------------------------------------
Export == DoExport =>
    /\ (phase = "case" => PrintT(<<"CASE", ToJson(c)>>))
    /\ (phase = "hist" /\ hk # "none" /\ Len(calls) = HistLen(hk) => PrintT(<<"HIST", ToJson([hk |-> hk, mode |-> c.mode, ang |-> c.ang, calls |-> calls])>>))
    /\ (phase = "world" /\ hk # "none" /\ Len(calls) = WorldLen =>
            PrintT(<<"WORLD", ToJson([hk |-> hk, rels |-> RelTuple(c.relid), calls |-> calls])>>))
=============================================================================
