------------------------------- MODULE WcsTrace -------------------------------
(* Trace validation for C10: every record the harness wrote from the real code     *)
(* (class comparison, reference pixel, anchor, round trip, scalar-vs-array, call    *)
(* history) is judged by the property-level clauses of Wcs.tla.  One ndjson line:  *)
(*   {"id": k, "kind": ..., "c": <abstract case>, "o": <observation>}              *)
(* Eval (second constraint, separate runs): for seeded abstract cases beyond the   *)
(* exhaustive bound TLC computes the class representative the harness then uses.   *)
EXTENDS Wcs, Json, IOUtils

VARIABLES blk, tid
Traces == ndJsonDeserialize(IOEnv.TRACE_FILE)
NT == Len(Traces)
BlockSize == 256
NBlocks == (NT + BlockSize - 1) \div BlockSize

Init == blk = 0 /\ tid = 0
PickBlock == blk = 0 /\ tid = 0 /\ \E b \in 1..NBlocks : blk' = b /\ tid' = 0
PickTrace == blk > 0 /\ tid = 0
             /\ \E t \in ((blk - 1) * BlockSize + 1)..VMin2(blk * BlockSize, NT) : tid' = t /\ blk' = blk
Next == PickBlock \/ PickTrace

Check == tid > 0 =>
    LET r == Traces[tid]  f == Failing(r)
    IN f = {} \/ PrintT(<<"REJECT", ToJson([id |-> r.id, failing |-> f])>>)

\* records [id, c : [h, pix, distort]] -> the pixel of the pure-TAN representative
Eval == tid > 0 =>
    LET r == Traces[tid]
    IN PrintT(<<"WORLD", ToJson([id |-> r.id, rep |-> TanRepPix(r.c.h, r.c.pix, r.c.distort),
                                refpix |-> RefPixAtOrigin(r.c.h)])>>)
=============================================================================
