#!/bin/bash
# tools/confirm_ref.sh <worktree> <REF_DIR_NAME> <name>   - confirms a property-PRESERVING change (false-alarm probe)
set -u
WT=$1; SD=$2; NAME=$3
cd "$WT" || exit 2
git checkout -q -- .
touchesC=$(grep -E '^\+\+\+ b/.*\.(c|cc|cpp|h|hpp)$' "$SD/patch.diff" | wc -l)
build() { /venv/bin/python setup.py -q build_ext --inplace -j 8 >/dev/null 2>&1; }
[ "$touchesC" -gt 0 ] && build
/venv/bin/python "$SD/check.py" >/tmp/confirm_$NAME.clean.log 2>&1; clean_rc=$?
git apply "$SD/patch.diff" || { echo "$NAME: patch does not apply"; exit 2; }
[ "$touchesC" -gt 0 ] && build
tests=$(/venv/bin/python -m pytest -q -p no:cacheprovider --timeout=900 esutil/tests 2>&1 | tail -1)
/venv/bin/python "$SD/check.py" >/tmp/confirm_$NAME.patched.log 2>&1; patched_rc=$?
git checkout -q -- .
[ "$touchesC" -gt 0 ] && build
echo "$NAME: check_clean_rc=$clean_rc tests_with_patch='$tests' check_patched_rc=$patched_rc touchesC=$touchesC"
if [ "$clean_rc" = 0 ] && [ "$patched_rc" = 0 ] && echo "$tests" | grep -q "167 passed"; then
  mkdir -p /verif/refactors/$NAME
  cp "$SD/patch.diff" "$SD/check.py" "$SD/meta.json" /verif/refactors/$NAME/
  echo "$NAME: CONFIRMED and stored"
else
  echo "$NAME: NOT CONFIRMED"
fi
