#!/bin/bash
# tools/confirm_seed.sh <worktree> <SEED_DIR_NAME> <seed-name>
# Independently confirms a seeded change (demo passes on clean HEAD, full suite passes with the patch,
# demo fails with the patch) and stores it under /verif/seeded/<seed-name>/.
set -u
WT=$1; SD=$2; NAME=$3
cd "$WT" || exit 2
git checkout -q -- . ; 
touchesC=$(grep -E '^\+\+\+ b/.*\.(c|cc|cpp|h|hpp)$' "$SD/patch.diff" | wc -l)
build() { /venv/bin/python setup.py -q build_ext --inplace -j 8 >/dev/null 2>&1; }
[ "$touchesC" -gt 0 ] && build
/venv/bin/python "$SD/demo.py" >/tmp/confirm_$NAME.clean.log 2>&1; clean_rc=$?
git apply "$SD/patch.diff" || { echo "$NAME: patch does not apply"; exit 2; }
[ "$touchesC" -gt 0 ] && build
imp=$(/venv/bin/python -c "import esutil,os; print(os.path.dirname(esutil.__file__))")
tests=$(/venv/bin/python -m pytest -q -p no:cacheprovider --timeout=900 esutil/tests 2>&1 | tail -1)
/venv/bin/python "$SD/demo.py" >/tmp/confirm_$NAME.patched.log 2>&1; patched_rc=$?
git checkout -q -- .
[ "$touchesC" -gt 0 ] && build
echo "$NAME: import=$imp demo_clean_rc=$clean_rc tests_with_patch='$tests' demo_patched_rc=$patched_rc touchesC=$touchesC"
if [ "$clean_rc" = 0 ] && [ "$patched_rc" = 1 ] && echo "$tests" | grep -q "167 passed"; then
  mkdir -p /verif/seeded/$NAME
  cp "$SD/patch.diff" "$SD/demo.py" /verif/seeded/$NAME/
  /venv/bin/python - "$SD/meta.json" "/verif/seeded/$NAME/meta.json" "$tests" <<'PY'
import json,sys
m=json.load(open(sys.argv[1]))
m["confirmed_by_lead"]={"demo_on_clean_head_rc":0,"demo_with_patch_rc":1,"full_suite_with_patch":sys.argv[3],
  "commands":["git apply patch.diff (scratch worktree of /repo HEAD)","python -m pytest esutil/tests","python demo.py","git checkout -- ."]}
json.dump(m,open(sys.argv[2],"w"),indent=1)
PY
  echo "$NAME: CONFIRMED and stored"
else
  echo "$NAME: NOT CONFIRMED"; tail -5 /tmp/confirm_$NAME.clean.log /tmp/confirm_$NAME.patched.log
fi
