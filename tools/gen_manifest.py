#!/venv/bin/python
"""Regenerates /verif/MANIFEST.json from the table below (one entry per claimed property)."""
import json, os, subprocess
HERE = os.path.dirname(os.path.dirname(os.path.abspath(__file__)))

TITLES = {}
for line in open(os.path.join(HERE, "properties.jsonl")):
    p = json.loads(line)
    TITLES[p["id"]] = p["title"]

# id -> (design_ref, technique, level text, level_note)
CLAIMED = {
 "C01": ("6 / C01",
         "TLA+ specs SFileFormat.tla (character-level header writer/scanner/evaluator; refinement obligations checked exhaustively by TLC, pinned END scanner as violating variant) and BinRoundTrip.tla (file state machine over field descriptors, row tokens, header ids; cross-entry agreement); every TLC-enumerated/simulated case executed through 6 writing and 10 reading entry points and judged by TLC trace validation (BinRoundTripTrace)",
         "TLC checks on every header of the bounded token space that the implementation-shaped header mechanism refines DataStart(Write(h)) = Len(HeaderBytes(h)) and ParseDict(lines) = h, and the property-level invariants of the file state machine. Every enumerated header, every one- and two-field dtype x byte order x entry point, simulated 3-6-field dtypes and seeded random tables/headers are written and read back through every entry point of the real code with adversarial row bytes, and the projected observations are accepted or rejected by the same TLA+ property.",
         "Dtype space beyond two fields sampled. Non-contiguous inputs out of scope. Underscore-prefixed keys unconstrained. Header values compared with Python ==. Low-level readers given offset = size - rows x itemsize (tail checked by raw_rows). Trusted: TLC, numpy tobytes/dtype projection, adapter token/id mapping (self-tested by 9 corruptions)."),
 "C02": ("6 / C02",
         "TLA+ spec Select.tla (Python slice rule, row-list normalisation, column order, access styles, split/reduce): TLC checks the implementation-shaped slice-normalisation and file-cursor mechanisms against it (SelectMC), exports every row/column request and read sequences on one handle; each executed on real SFile/Recfile handles (binary + text) in every access style and every read judged by TLC trace validation (SelectTrace)",
         "Exhaustive over tables of 1..n rows: every slice with bounds in [-n-2, n+2] or None and positive steps, every short row list and permutation, every scalar row, every ordered column subset x {none, split, reduce}, in six access styles on binary and text files, plus behaviours of several reads on one handle (the cursor is state) and seeded sessions on larger tables. TLC decides what each read must return; the real result is projected to (columns, original row indices, form).",
         "The fully-read table is the reference (its faithfulness is C01/C04; fixtures are verified to read back as written). Scalar rows outside [-n, n) are outside the quantifier; negative entries inside a row list and the empty list may be rejected or served as numpy would. Trusted: TLC, unique-token cell identification."),
 "C03": ("6 / C03",
         "TLA+ state machine of record files and write handles (RecStore.tla) model-checked with TLC over all bounded operation histories; behaviours (exhaustive short, transition tour, simulated) replayed step by step on real sfile/io and, with seeded random call sequences, judged by the TLC trace spec (RecStoreTrace); implementation-shaped mechanism model (RecStoreMech: SIZE rewrite, cached row counts, compatibility check) checked by invariants and trace inclusion",
         "Every history of <= 5 (thorough <= 7) calls over 1-2 paths/handles satisfies size = len, append = prefix growth with header/fields kept, overwrite replaces, rejected = unchanged, file = concatenation; each replayed history of the real code is accepted by the spec clause by clause (rows, stored count, header, creation on missing, rejection, bytes unchanged), the file being read back through a fresh reader after each call.",
         "Not decided: crash points; bytes while a writer is open; readability of write handles (only the correctness of returned tables); mode 'w+'; reader byte order; text value fidelity (C04). Trusted: TLC, token<->row-bytes tables, fresh-reader projection."),
 "C04": ("6 / C04",
         "TLA+ spec TextCodec.tla: character-level writer/scanner of records.cpp as a mechanism checked by TLC against the round-trip obligation (named hazards give signatures; pinned scanf-format scanner as violating variant); TextCodecMC enumerates bounded table families; each written/read with sfile and recfile for six delimiters and both byte orders; results judged by TLC trace validation (TextCodecTrace)",
         "TLC enumerates adjacency-exhaustive layouts (number->string, string->number, string/number last), every string over {space, delimiter, letter, pad} up to width 3 (widths to 12 sampled), every integer type with its extremes, floats on the short-decimal lattice plus NaN/inf/signed zero, sub-arrays; every exported table is written and read back by the real code and the abstraction of what came back must equal what was written, with names, shapes, native order and header _DELIM/_DTYPE.",
         "Floats are decided on the short-decimal lattice (<= 15 / <= 6 significant digits) where 16/7-digit round trip reduces to equality; generic 16th/7th digit rounding is not decided. Strings: printable ASCII, space, tab (no newline/CR/NUL inside). Trusted: TLC, byte->token abstraction (same map both ways)."),
 "C05": ("6 / C05",
         "TLA+ spec Hist.tla: exhaustive TLC small-scope model (HistMC) incl. implementation-shaped pass refinement; every TLC-enumerated case replayed into both engines and judged by TLC trace validation (HistTrace)",
         "TLC checks on every case of the bounded space that the implementation-shaped single pass refines the property-level histogram spec; every one of those cases is then executed against the real C and Python engines on dyadic lattices and the recorded results (plus larger seeded arrays) are accepted or rejected by the same TLA+ property (counts, rev slices, order, completeness, engine equality).",
         "Decided on the dyadic lattice only (bin index exact there; integer quotients with inexact bin size are unconstrained). Off-lattice data: engine-vs-engine equality only. Trusted: TLC, adapter concretisation (value=(x+off)*unit)."),
 "C06": ("6 / C06",
         "TLA+ spec ArrayMatch.tla (match / unique / rem_dup as set-sequence definitions); ArrayMatchMC enumerates every (a1, a2) and (array, flags) pair of the bounded space; each realised through order-preserving injections (64-bit extremes, floats, byte/unicode strings) and run through match, match_multi, presorted, scalars, unique, rem_dup; results judged by TLC trace validation (ArrayMatchTrace)",
         "Exhaustive over first arrays of distinct values (any order) and second arrays with repeats over a domain extending beyond the first array's range, and over arrays x flags for the de-duplication helpers; every abstract case is executed in several concrete realisations and larger seeded arrays go the code->spec way. TLC evaluates soundness, completeness, order by second-array position, presorted agreement, rejection of repeated first arrays, one index per value / largest flag.",
         "Values are realised by strictly increasing injections (checked against numpy's ordering at start). Mixed signed/unsigned 64-bit pairs, NaN and empty arrays are outside the quantifier. Trusted: TLC, injection mapping."),
 "C07": ("6 / C07",
         "TLA+ spec FieldOps.tla: state machine over 'the current array' (field sequence with kind, sub-shape, order, data token); FieldOpsMC enumerates every chain of field operations of bounded depth; each replayed through the real numpy_util functions with the result of one call as input of the next; every step judged by TLC trace validation (FieldOpsTrace)",
         "TLC enumerates chains of extract / remove / add / reorder / combine / copy_fields / split over bounded arrays (mixed byte orders, strings, sub-array fields, 0-d..2-d) and every single operation over the full alphabet; before and after every real call the arrays are projected to [shape, fields: (name, kind, sub-shape, byte order, data token)] and the (pre, op, observation) steps must be allowed by the spec, including the documented rejections.",
         "Data tokens are NaN-free and -0.0-free so element-wise equality is byte equality. Undocumented argument forms are tallied but do not gate. Aligned dtypes, zero-size arrays, duplicate names in one request are outside the quantifier. Trusted: TLC, token projection."),
 "C08": ("6 / C08",
         "TLA+ spec Sphere.tla: exact great-circle lattice (integer + symbolic epsilon degrees) and rational sphere (Pythagorean quadruples); SphereMC checks the lattice theorems and the near-antipodal branch mechanism and exports exact separations / dot products; every pair evaluated by sphdist (4 unit combinations) and gcirc in both orders, +-360, as scalars, length-1/3/long arrays and one-point-vs-array; returned numbers projected with exact Fraction/decimal arithmetic and judged by TLC (SphereTrace)",
         "Exhaustive over the bounded lattices incl. coincident, 1e-12..1e-3 degree apart, 180-1e-9, exactly antipodal, polar and seam-crossing pairs; TLC recomputes SepGC / CosSep from the case and accepts only the exact lattice value within the tolerance the statement gives (1e-11 / 2e-6 degree), plus finite, range, exactly zero for identical inputs.",
         "Accuracy at generic doubles off both lattices is not decided (no transcendental oracle in TLA+). Lattice inputs are rounded once to doubles (2e-13 degree allowance). Trusted: TLC, Fraction/60-digit decimal projection (self-validated per run)."),
 "C09": ("6 / C09",
         "TLA+ spec Frames.tla: TLC derives the path equations of the conversion groupoid (inverse pairs, chained = direct), anchor facts from the documented pole/node constants, dyadic shift arithmetic with an add-then-fold refinement, quarter-turn Euler rotations as cube rotations; every exported case executed in esutil.coords on both lattices; projected observations judged by TLC (FramesTrace)",
         "Exhaustive over all composable conversion paths <= 3 (thorough 4) x bounded great-circle / decimal / rational-sphere lattices (all source and target poles, lon 0/360, SDSS node) x {J2000, B1950} x call shapes: equations and isometry at the stated on-sky tolerance, finite outputs in documented ranges, unit vectors, shiftlon/shiftra exact mod 360 with the stated intervals.",
         "Rotation-matrix entries are not compared (anchors + isometry instead; B1950 has no documented constants, hence no anchors). The rotate inverse convention and undocumented longitude ranges are accepted as silent. An equation between n conversions is allowed (n-1)x the per-pair tolerance. Trusted: longdouble chord kernel (validated per run), Fraction/decimal projection, TLC."),
 "C10": ("6 / C10",
         "TLA+ spec Wcs.tla: TLC enumerates bounded WCS headers x pixels with exact rational World coordinates (class representative = pure-TAN header), gnomonic / CRVAL anchors on the great-circle lattice and all call histories; mechanism model of coefficient extraction/dispatch refines World; every case runs on the real wcsutil.WCS and TLC (WcsTrace) judges the records",
         "Model checking of Wcs.tla (exhaustive at the stated bounds) with two-way conformance: observational-equivalence classes (TPV/SIP vs pure TAN) must agree to 1e-9 degree, anchors at 30/45/60 degrees incl. polar and seam CRVAL, reference pixel -> CRVAL with longitude in [0,360), round trips with and without root finding, scalar vs array, and every call sequence of length <= 4 on one object bit-identical to fresh objects.",
         "Not decided: 1e-9 degree agreement with the FITS reference between anchors/classes at arbitrary coefficients (arctan/rotation numerics), accuracy of the fitted inverse polynomial (find=False: finite only). Assumes complete PV sets, no radial PV terms. Trusted: TLC, long-double separation kernel (self-tested), float(Fraction) on dyadic lattices."),
 "C11": ("6 / C11",
         "TLA+ spec Cosmo.tla: parameter normalisation, exact rational E^2(z), an identity catalogue as expression trees, an argument-shape dispatch machine and copy/pickle object-graph behaviours; CosmoMC enumerates constructor args x redshift pairs, shape pairs and copy chains (mechanism transcriptions checked by refinement invariants + deviating self-test); every exported case executed on the real Cosmo class; residuals and observations judged by TLC (CosmoTrace)",
         "Bounded exhaustive model checking with conformance in both directions: all grid cosmologies x lattice redshift pairs x 27 identities (incl. result = the documented 5/10-point Gauss-Legendre sum of the exact integrand, Hogg's distance-addition formula, Einstein-de Sitter anchors), all shape pairs of length <= 3 x 8 quantities x 3 cosmologies element-for-element bit-equal to scalar calls, all copy/deepcopy/pickle chains <= 3, plus seeded finer-lattice cases.",
         "The '<= 1.5 x truncation error' clause is decided as 'result = documented n-point GL sum of the exact integrand' (rule = esutil.integrate.gauleg per C17, or the exact rule). Absolute truncation size only at the EdS anchors and via Hogg addition on concordance-like parameters; 4 pi G / c^2 to 5e-4. Trusted: TLC, the Fraction evaluator in vh/cosmolat.py (sqrt/sinh/sin/log10 >= 45 digits)."),
 "C15": ("6 / C15",
         "TLA+ spec Frame.tla: catalogue of public array-taking entry points with the frame condition UNCHANGED on every argument not documented in-place, layout lattice (byte order, contiguity, kind, 0-d..2-d), argument-path mechanism refining Invoke (FrameMC); every exported invocation executed with arguments built in exactly that layout, snapshotted before/after (bytes, base buffer, dtype, flags, strides) and judged by TLC (FrameTrace)",
         "Exhaustive over catalogue entries x admissible dimensionalities x option values x layout assignments (every admissible [order, contiguity, kind] of one parameter with the others in base layout; thorough: pairs). Whatever the call returned or raised, the recorded step must be an Invoke step, i.e. every non-mutable argument bit-for-bit unchanged in data, whole base buffer, dtype incl. byte order, flags and strides.",
         "The catalogue (Frame.tla FrCalls) is the set of public array-taking entry points of the families the statement lists; undocumented in-place helpers (coords.atbound/atbound2) are not claimed; arguments documented as written are exempt. Trusted: TLC, snapshot digests."),
 "C16": ("6 / C16",
         "TLA+ spec ByteOrder.tla: array = fields with declared order character and physical order, buffer identity; ByteOrderMC enumerates every abstract array and every chain of conversions (to_native / to_big / to_little / byteswap x inplace x keep_dtype) of bounded depth with idempotence / swap-twice as theorems; each chain executed on real numpy arrays; every step projected and judged by TLC (ByteOrderTrace)",
         "Exhaustive over plain arrays of every numeric kind and order spelling and structured arrays mixing multi-byte, single-byte and string fields in every position, 0-d..2-d, and chains of <= 3 conversions (aliasing matters); after every real step the declared order per field, the physical order (bytes compared with both encodings of known values), buffer identity and structure are projected and must be allowed by the spec; predicates and descriptor helpers likewise.",
         "keep_dtype=True is read as: bytes converted exactly as without it, dtype left as it was. numpy canonicalises the machine's own order to '=', so three of the four order characters are observable per machine; the spec is checked for both machine orders. Trusted: TLC, physical-order detection (values are never byte palindromes)."),
 "C17": ("6 / C17",
         "TLA+ spec Quadrature.tla: exact polynomial moments (integers/rationals) of Gauss-Legendre rules, QGauss cache state machine, tensor rule, tabulated-data integrand = piecewise-linear interpolation; QuadratureMC exports moments, call sequences, tensor shapes and tables; gauleg output and rules extracted from the integrators with recording/indicator integrands are evaluated exactly (binary64 as rationals) and judged by TLC (QuadratureTrace)",
         "Moment conditions for k <= 2n-1 (equivalent to agreement with an independent GL rule, by uniqueness) for n = 1..200 (+500..2000 thorough) on integer intervals and scalings, with the structural clauses (ascending, strictly inside, symmetric, positive); integrator clauses as identities: result = (b-a)/2 sum w_i y_i at the mapped nodes for any integrand, tabulated data through exact interpolation, QGauss2 tensor sum; every call sequence of length <= 4 over npts on one object vs fresh objects.",
         "npts omitted after an explicit npts: the object's current count or the constructor's (either accepted). a > b: moments only; a = b outside the quantifier. Accuracy of integrating smooth functions is not claimed by the statement and not checked. Trusted: TLC, exact binary64->rational evaluation (vh/ratproj_q.py)."),
 "C18": ("6 / C18",
         "TLA+ spec Stats.tla over exact rationals (weighted moments, weighted median, sigma-clip iteration with tie nondeterminism, piecewise-linear inter/extrapolation, get_stats, cov<->cor); StatsMC runs the wmedian loop, clipping iteration and searchsorted selection as actions against the definitions and exports every bounded case; each concretised on dyadic lattices and executed on esutil.stat with all option settings; results (clipping: the whole iteration re-observed with niter = 0..k) judged by TLC (StatsTrace)",
         "Exhaustive over (data, weights) of bounded length/values x calcerr x sdev x inputmean, N-by-2 inputs, clipping inputs x nsig x niter, interpolation tables with queries inside/at nodes/outside, symmetric matrices up to 3x3; plus seeded larger cases. Observed floats are projected onto lattice rationals 'to rounding' and TLC accepts only the exact value; clipping is judged link by link along the observed chain.",
         "Dyadic lattice (denominators <= 2^20); 'to rounding' = 16 ulp of the operand scale. Points exactly on the nsig boundary may be kept or dropped; weighted sigma_clip / get_stats error: either documented convention. get_stats clip mode on more than 8 data is not enumerated. Trusted: TLC, Fraction projection (vh/ratproj.py)."),
 "C19": ("6 / C19",
         "TLA+ spec Sampler.tla (rational inverse-CDF sampler, integer-Cholesky sampler, index selection, box and cap membership on the great-circle lattice, two-generator reproducibility) model-checked with TLC incl. implementation-shaped mechanisms as actions (searchsorted+clamp, column Cholesky, rotated cap path with conversion count); every enumerated case executed on the real code with scripted stub generators (lattice deviates) and seeded legacy/new-style generators; observations projected and judged by TLC (SamplerTrace)",
         "Exhaustive over the stated bounded spaces (density tables on <= 5 uneven nodes, factors <= 3x3, index selection <= 6, caps over lattice centres incl. poles/seam x radii 1e-6..180 degrees x direct/rotated path, boxes incl. zero-width and pole-hugging), all exported cases replayed and trace-validated, plus seeded generic caps and 4x4/5x5 factors: membership, returned radius = separation, ranges, count, reproducibility, grid points exactly where u equals their cumulative value, monotonicity.",
         "Not decided: uniformity; 2-node tables; values below the first cumulative value beyond monotonicity; deviate-to-sample arrangement. Tolerances: box 1e-12 degree, cap membership and radius = separation 1e-9 degree via the validated longdouble kernel, sampler/Cholesky values 16 ulp. Trusted: TLC, spherelat kernel (validated per run), stub generators."),
 "C20": ("6 / C20",
         "TLA+/PlusCal specs Quicksort.tla (explicit stack, hole-based partition, plain + key-value; termination and Sorted/Permutation), Isplit.tla, ProgressIter.tla (lazy consumer/wrapper/source protocol), PoolMap.tla (Take/Finish/Deliver under every worker schedule, liveness under fairness); exported cases executed on esutil.algorithm / numpy_util.splitarray / pbar / pmap (task latencies scripted from TLC's completion orders); observations and per-process event streams judged by TLC trace modules (QuicksortTrace, ChunkTrace, ProgressIterTrace, PoolMapTrace)",
         "TLC checks every array of bounded length (sorts), every (num, nchunks) / (nper, length) pair (chunking), every option record x iterable kind (progress wrappers: items, order and laziness pulled <= yielded + 1) and every schedule of few items/workers/chunk sizes (pool map: delivered = prefix of map(fn, items)); the real functions are run on every exported case with many container kinds and the trace modules must find the observation allowed - for pmap an interleaving of model actions explaining the recorded per-process streams.",
         "Text written to file= is unconstrained. simple=True on a length-less iterable without total is a documented rejection. Worker scheduling is driven by scripted latencies (the OS scheduler is not controlled); event order uses per-process sequence numbers only. Trusted: TLC, pcal translation (committed), logging task function."),
}

NOT_YET = "check under construction in this session (see DESIGN.md section 6); not claimed until its TLA+ model and conformance harness are committed"

def main():
    checks = []
    for pid in sorted(CLAIMED):
        ref, tech, text, note = CLAIMED[pid]
        checks.append({
            "property_id": pid,
            "quick_cmd": "./check %s --tier quick" % pid,
            "thorough_cmd": "./check %s --tier thorough" % pid,
            "evidence_file": "evidence/%s.json" % pid,
            "replay_cmd_template": "./check %s --replay {path}" % pid,
            "engine": "tlc+conformance",
            "level_claimed": {"category": "model_checking", "text": text, "design_ref": "DESIGN.md section " + ref},
            "level_note": note,
            "technique": tech,
        })
    hooks_commits = []
    m = {
        "version": 1,
        "setup_cmd": "./check --setup",
        "hooks": {
            "guard": "ESUTIL_VERIF",
            "enable": "checks export ESUTIL_VERIF=1 and copy /repo's working tree to a scratch directory where the C/C++ extensions are rebuilt (build_ext --inplace); no source hook is currently needed, recording proxies wrap public entry points from outside",
            "baseline_off_cmd": "cd /repo && env -u ESUTIL_VERIF /venv/bin/python setup.py -q build_ext --inplace -j 16 >/dev/null 2>&1; cd /repo && env -u ESUTIL_VERIF /venv/bin/python -m pytest -ra -q -p no:cacheprovider --timeout=900 --continue-on-collection-errors",
            "source_commits": hooks_commits,
            "add_only": True,
        },
        "engines": [
            {"name": "tlc+conformance", "path": "harness/vh", "serves_properties": sorted(CLAIMED),
             "kind_free_text": "explicit TLA+ specification (spec/*.tla) model-checked by TLC; TLC-enumerated cases/behaviours replayed into esutil built from /repo's working tree; observations recorded from the real code judged by TLA+ trace specifications under TLC"},
        ],
        "checks": checks,
        "notes": "Every check: ./check <ID> --tier quick|thorough; exit 0 held / 1 VIOLATION / 2 machinery failure. Known findings: known_findings.json. Design: DESIGN.md.",
        "not_applicable": [{"property_id": pid, "reason": NOT_YET} for pid in sorted(TITLES) if pid not in CLAIMED],
    }
    with open(os.path.join(HERE, "MANIFEST.json"), "w") as f:
        json.dump(m, f, indent=1)
        f.write("\n")
    print("MANIFEST.json: %d checks, %d not_applicable" % (len(checks), len(m["not_applicable"])))

if __name__ == "__main__":
    main()
