#!/venv/bin/python
"""Regenerates /verif/MANIFEST.json from the table below (one entry per claimed property)."""
import json, os, subprocess
HERE = os.path.dirname(os.path.dirname(os.path.abspath(__file__)))

TITLES = {}
for line in open(os.path.join(HERE, "properties.jsonl")):
    p = json.loads(line)
    TITLES[p["id"]] = p["title"]

# id -> (design_ref, technique, level text, level_note)
CLAIMED = {
 "C05": ("6 / C05",
         "TLA+ spec Hist.tla: exhaustive TLC small-scope model (HistMC) incl. implementation-shaped pass refinement; every TLC-enumerated case replayed into both engines and judged by TLC trace validation (HistTrace)",
         "TLC checks on every case of the bounded space that the implementation-shaped single pass refines the property-level histogram spec; every one of those cases is then executed against the real C and Python engines on dyadic lattices and the recorded results (plus larger seeded arrays) are accepted or rejected by the same TLA+ property (counts, rev slices, order, completeness, engine equality).",
         "Decided on the dyadic lattice only (bin index exact there; integer quotients with inexact bin size are unconstrained). Off-lattice data: engine-vs-engine equality only. Trusted: TLC, adapter concretisation (value=(x+off)*unit)."),
}

NOT_YET = "check under construction in this session (see DESIGN.md section 6); not claimed until its TLA+ model and conformance harness are committed"

def main():
    checks = []
    for pid in sorted(CLAIMED):
        ref, tech, text, note = CLAIMED[pid]
        checks.append({
            "property_id": pid,
            "quick_cmd": "./check %s --tier quick" % pid,
            "thorough_cmd": "./check %s --tier thorough" % pid,
            "evidence_file": "evidence/%s.json" % pid,
            "replay_cmd_template": "./check %s --replay {path}" % pid,
            "engine": "tlc+conformance",
            "level_claimed": {"category": "model_checking", "text": text, "design_ref": "DESIGN.md section " + ref},
            "level_note": note,
            "technique": tech,
        })
    hooks_commits = []
    m = {
        "version": 1,
        "setup_cmd": "./check --setup",
        "hooks": {
            "guard": "ESUTIL_VERIF",
            "enable": "checks export ESUTIL_VERIF=1 and copy /repo's working tree to a scratch directory where the C/C++ extensions are rebuilt (build_ext --inplace); no source hook is currently needed, recording proxies wrap public entry points from outside",
            "baseline_off_cmd": "cd /repo && env -u ESUTIL_VERIF /venv/bin/python setup.py -q build_ext --inplace -j 16 >/dev/null 2>&1; cd /repo && env -u ESUTIL_VERIF /venv/bin/python -m pytest -ra -q -p no:cacheprovider --timeout=900 --continue-on-collection-errors",
            "source_commits": hooks_commits,
            "add_only": True,
        },
        "engines": [
            {"name": "tlc+conformance", "path": "harness/vh", "serves_properties": sorted(CLAIMED),
             "kind_free_text": "explicit TLA+ specification (spec/*.tla) model-checked by TLC; TLC-enumerated cases/behaviours replayed into esutil built from /repo's working tree; observations recorded from the real code judged by TLA+ trace specifications under TLC"},
        ],
        "checks": checks,
        "notes": "Every check: ./check <ID> --tier quick|thorough; exit 0 held / 1 VIOLATION / 2 machinery failure. Known findings: known_findings.json. Design: DESIGN.md.",
        "not_applicable": [{"property_id": pid, "reason": NOT_YET} for pid in sorted(TITLES) if pid not in CLAIMED],
    }
    with open(os.path.join(HERE, "MANIFEST.json"), "w") as f:
        json.dump(m, f, indent=1)
        f.write("\n")
    print("MANIFEST.json: %d checks, %d not_applicable" % (len(checks), len(m["not_applicable"])))

if __name__ == "__main__":
    main()
