#!/venv/bin/python
"""tools/manifest_append.py PID technique|text|note "string"  - appends to one string of the CLAIMED table in gen_manifest.py
(note: inserted before the final 'Trusted:' sentence), then regenerates MANIFEST.json."""
import os, subprocess, sys
HERE = os.path.dirname(os.path.abspath(__file__))
p = os.path.join(HERE, "gen_manifest.py")
pid, which, text = sys.argv[1], sys.argv[2], sys.argv[3]
idx = {"technique": 1, "text": 2, "note": 3}[which]
s = open(p).read()
i = s.index(' "%s": ("6 / %s",' % (pid, pid))
j = s.index('"),\n', i) + 3
lines = s[i:j].split("\n")
assert len(lines) == 4, len(lines)
L = lines[idx]
if idx == 3:
    assert L.endswith('"),')
    body = L[:-3]
    if " Trusted:" in body:
        k = body.rindex(" Trusted:")
        body = body[:k] + " " + text.strip() + body[k:]
    else:
        body = body + " " + text.strip()
    L = body + '"),'
else:
    assert L.endswith('",'), L[-30:]
    L = L[:-2] + text.rstrip() + '",'
assert '"' not in text and "\\" not in text
lines[idx] = L
open(p, "w").write(s[:i] + "\n".join(lines) + s[j:])
subprocess.run(["/venv/bin/python", p], check=True)
