#!/bin/bash
# tools/rebase_patch.sh <dir containing patch.diff>  - re-creates patch.diff against /repo HEAD by 3-way merge
D=$1
T=$(mktemp -d /tmp/vh-rebase-XXXX)
git clone -q --shared /repo $T/r || exit 2
cd $T/r
if git apply -3 "$D/patch.diff" 2>$T/err; then
  if git diff --name-only --diff-filter=U | grep -q .; then echo "$(basename $D): CONFLICT"; cat $T/err | tail -3; rc=1
  else git diff HEAD > $T/new.diff; cp $T/new.diff "$D/patch.diff"; echo "$(basename $D): rebased ($(grep -c '^@@' $T/new.diff) hunks)"; rc=0; fi
else echo "$(basename $D): apply -3 failed"; tail -3 $T/err; rc=1; fi
cd /; rm -rf $T; exit $rc
