#!/venv/bin/python
"""Run the owning property's check against every property-PRESERVING change under /verif/refactors/ (false-alarm probes).
Expected verdict: SILENT (exit 0).  ALARM (exit 1) = the check demands more than the property states - fix the check.
usage: tools/ref_test.py [--tier quick] [name ...]   results kept in refactors/RESULTS.json"""
import fcntl, json, os, shutil, subprocess, sys, tempfile
HERE = os.path.dirname(os.path.dirname(os.path.abspath(__file__)))
D = os.path.join(HERE, "refactors")

def main():
    args = sys.argv[1:]
    tier = "quick"
    if "--tier" in args:
        i = args.index("--tier"); tier = args[i + 1]; del args[i:i + 2]
    names = args or sorted(n for n in os.listdir(D) if os.path.isdir(os.path.join(D, n)))
    rp = os.path.join(D, "RESULTS.json")
    allres = {}
    touched = set()
    for name in names:
        d = os.path.join(D, name)
        meta = json.load(open(os.path.join(d, "meta.json")))
        props = [meta["property"]] + meta.get("also_run", [])
        tmp = tempfile.mkdtemp(prefix="vh-ref-")
        try:
            subprocess.run("git -C /repo archive HEAD | tar -x -C %s" % tmp, shell=True, check=True)
            subprocess.run(["git", "init", "-q"], cwd=tmp, check=True)
            r = subprocess.run(["git", "apply", "--whitespace=nowarn", os.path.join(d, "patch.diff")], cwd=tmp, capture_output=True, text=True)
            if r.returncode != 0:
                print(name, "PATCH-DOES-NOT-APPLY", r.stderr.strip()[:200]); allres[name] = {"verdict": "PATCH-DOES-NOT-APPLY"}; continue
            for p in props:
                touched.add(p)
                r = subprocess.run(["./check", p, "--tier", tier], cwd=HERE, env=dict(os.environ, VH_REPO=tmp), capture_output=True, text=True)
                sigs = [l.strip().replace("signature: ", "") for l in r.stdout.splitlines() if l.strip().startswith("signature:")]
                verdict = {0: "SILENT", 1: "ALARM", 2: "ERROR"}.get(r.returncode, "rc=%d" % r.returncode)
                allres[name + ":" + p] = {"verdict": verdict, "signatures": sigs[:6], "tier": tier}
                print("%-12s %-4s %-7s %s" % (name, p, verdict, "; ".join(sigs[:4])[:220]), flush=True)
                if r.returncode == 2:
                    print(r.stdout[-1200:])
        finally:
            shutil.rmtree(tmp, ignore_errors=True)
    # the runs above rewrote the evidence files of the properties they touched: put the committed ones back
    # (only those - other work in progress in evidence/ is left alone)
    for pp in sorted(touched):
        subprocess.run(["git", "checkout", "--", "evidence/%s.json" % pp], cwd=HERE, stderr=subprocess.DEVNULL)
    with open(rp + ".lock", "w") as lk:
        fcntl.flock(lk, fcntl.LOCK_EX)
        old = json.load(open(rp)) if os.path.exists(rp) else {}
        old.update(allres)
        with open(rp, "w") as f:
            json.dump(old, f, indent=1, sort_keys=True); f.write("\n")

if __name__ == "__main__":
    main()
