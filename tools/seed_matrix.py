#!/venv/bin/python
"""Regenerates DESIGN.md section 12 (between the SEED-MATRIX markers) from seeded/*/meta.json and seeded/RESULTS.json."""
import json, os, re
HERE = os.path.dirname(os.path.dirname(os.path.abspath(__file__)))
S = os.path.join(HERE, "seeded")
res = json.load(open(os.path.join(S, "RESULTS.json")))
rows = []
retired = []
for name in sorted(os.listdir(S)):
    mp = os.path.join(S, name, "meta.json")
    if not os.path.exists(mp):
        continue
    m = json.load(open(mp))
    if m.get("retired"):
        retired.append(name)
        rows.append("| %s | %s | %s | retired: %s |" % (name, re.sub(r"\s+", " ", m.get("what_changed", ""))[:160].replace("|", "/"), "", re.sub(r"\s+", " ", m["retired"])[:200].replace("|", "/")))
        continue
    props = [m["property"]] + m.get("also_run", [])
    verdicts = []
    for p in props:
        r = res.get("%s:%s" % (name, p))
        if r:
            sig = (r.get("signatures") or [""])[0]
            verdicts.append("%s: %s%s" % (p, r["verdict"].lower(), (" (`%s`)" % sig[:70]) if sig and r["verdict"] == "DETECTED" else ""))
        else:
            verdicts.append("%s: not run" % p)
    what = re.sub(r"\s+", " ", m.get("what_changed", ""))[:160].replace("|", "/")
    need = re.sub(r"\s+", " ", m.get("needs_to_manifest", ""))[:130].replace("|", "/")
    rows.append("| %s | %s | %s | %s |" % (name, what, need, "; ".join(verdicts)))
nd = sum(1 for k, v in res.items() if v["verdict"] == "DETECTED")
names = {k.split(":")[0] for k in res if k.split(":")[0] not in retired and os.path.isdir(os.path.join(S, k.split(":")[0]))}
caught = {k.split(":")[0] for k, v in res.items() if v["verdict"] == "DETECTED"} & names
table = ["| seed | change (abridged) | needs | check verdict (quick tier) |", "|---|---|---|---|"] + rows
text = ("%d live seeded changes (%d more retired: %s), %d detected by the quick tier of at least one owning check, %d not detected: %s.\n\n" %
        (len(names), len(retired), ", ".join(retired) or "none", len(caught), len(names - caught), ", ".join(sorted(names - caught)) or "none")) + "\n".join(table) + "\n"
p = os.path.join(HERE, "DESIGN.md")
s = open(p).read()
a, b = "<!-- SEED-MATRIX-BEGIN -->", "<!-- SEED-MATRIX-END -->"
s = s[:s.index(a) + len(a)] + "\n" + text + s[s.index(b):]
open(p, "w").write(s)
print("matrix: %d seeds, %d caught" % (len(names), len(caught)))
