#!/venv/bin/python
"""Run the owning property's check against every seeded change under /verif/seeded/.

For each /verif/seeded/<name>/ (patch.diff, demo.py, meta.json) a scratch copy of
/repo's HEAD is made outside /repo and /verif, the patch applied, and
`VH_REPO=<copy> ./check <prop> --tier <tier>` run; the copy is removed afterwards.
Prints one line per seed: DETECTED (exit 1 with a VIOLATION line), MISSED (exit 0)
or ERROR (exit 2).  Evidence files are restored afterwards (git checkout).
usage: tools/seed_test.py [--tier quick] [name ...]
"""
import fcntl, json, os, shutil, subprocess, sys, tempfile
HERE = os.path.dirname(os.path.dirname(os.path.abspath(__file__)))
SEEDED = os.path.join(HERE, "seeded")

def main():
    args = sys.argv[1:]
    tier = "quick"
    if "--tier" in args:
        i = args.index("--tier"); tier = args[i + 1]; del args[i:i + 2]
    names = args or sorted(os.listdir(SEEDED))
    results = {}
    touched = set()
    for name in names:
        d = os.path.join(SEEDED, name)
        if not os.path.exists(os.path.join(d, "patch.diff")):
            continue
        meta = json.load(open(os.path.join(d, "meta.json")))
        if meta.get("retired"):
            print("%-28s retired: %s" % (name, meta["retired"][:120])); continue
        prop = meta["property"]
        props = [prop] + [p for p in meta.get("also_run", [])]
        tmp = tempfile.mkdtemp(prefix="vh-seed-")
        try:
            subprocess.run("git -C /repo archive HEAD | tar -x -C %s" % tmp, shell=True, check=True)
            subprocess.run(["git", "init", "-q"], cwd=tmp, check=True)
            r = subprocess.run(["git", "apply", "--whitespace=nowarn", os.path.join(d, "patch.diff")], cwd=tmp,
                               capture_output=True, text=True)
            if r.returncode != 0:
                results[name] = "PATCH-DOES-NOT-APPLY " + r.stderr.strip()[:200]
                print(name, results[name]); continue
            for p in props:
                touched.add(p)
                env = dict(os.environ, VH_REPO=tmp)
                r = subprocess.run(["./check", p, "--tier", tier], cwd=HERE, env=env, capture_output=True, text=True)
                viol = [l for l in r.stdout.splitlines() if l.startswith("VIOLATION")]
                sigs = [l.strip() for l in r.stdout.splitlines() if l.strip().startswith("signature:")]
                verdict = {0: "MISSED", 1: "DETECTED", 2: "ERROR"}.get(r.returncode, "rc=%d" % r.returncode)
                results[name + ":" + p] = (verdict, [x.replace("signature: ", "") for x in sigs[:4]])
                print("%-28s %-4s %-9s %s" % (name, p, verdict, "; ".join(sigs[:3])[:200]), flush=True)
                if r.returncode == 2:
                    print(r.stdout[-1500:])
        finally:
            shutil.rmtree(tmp, ignore_errors=True)
    # the runs above rewrote the evidence files of the properties they touched: put the committed ones back
    # (only those - other work in progress in evidence/ is left alone)
    for pp in sorted(touched):
        subprocess.run(["git", "checkout", "--", "evidence/%s.json" % pp], cwd=HERE, stderr=subprocess.DEVNULL)
    # keep the latest verdict per (seed, property) - the table of DESIGN.md section 12 is generated from it
    rp = os.path.join(SEEDED, "RESULTS.json")
    with open(rp + ".lock", "w") as lk:
        fcntl.flock(lk, fcntl.LOCK_EX)          # several seed_test processes may run side by side
        allres = json.load(open(rp)) if os.path.exists(rp) else {}
        for k, v in results.items():
            allres[k] = {"verdict": v if isinstance(v, str) else v[0], "signatures": [] if isinstance(v, str) else v[1], "tier": tier}
        with open(rp, "w") as f:
            json.dump(allres, f, indent=1, sort_keys=True)
            f.write("\n")
    return 0

if __name__ == "__main__":
    sys.exit(main())
