#!/bin/sh
# tools/sweep.sh <tier> <id> ...   - run the given checks one after the other, one summary line each
# (exit code, wall seconds, last VIOLATION / KNOWN-FINDING lines) into sweep_<tier>.log in the current directory
tier=$1; shift
for p in "$@"; do
  s=$(date +%s)
  ./check $p --tier $tier > sweep_${tier}_$p.out 2>&1; rc=$?
  e=$(date +%s)
  echo "$p tier=$tier rc=$rc wall=$((e-s))s $(grep -c '^VIOLATION' sweep_${tier}_$p.out) violations" >> sweep_$tier.log
  grep '^VIOLATION\|^KNOWN-FINDING\|^MACHINERY' sweep_${tier}_$p.out | head -5 >> sweep_$tier.log
done
